#![no_main]
use libfuzzer_sys::fuzz_target;
fuzz_target!(|data: &[u8]| {
    vcore::decode::fuzz_entry("api_any", data);
});
