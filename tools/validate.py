#!/usr/bin/env python3-vt
"""Validate MANIFEST.json and every evidence file against the given schemas (needs the tooling venv: python3-vt)."""
import json, glob, sys, jsonschema
ok = True
m = json.load(open('/verif/MANIFEST.json'))
jsonschema.validate(m, json.load(open('/root/.vp/MANIFEST.schema.json')))
print("MANIFEST.json valid; claimed", len(m["checks"]), "not_applicable", len(m.get("not_applicable", [])))
es = json.load(open('/root/.vp/EVIDENCE.schema.json'))
for c in m["checks"]:
    f = c["evidence_file"]
    try:
        e = json.load(open(f))
        jsonschema.validate(e, es)
        cov = e["coverage"]
        print(f"  {c['property_id']} {e['tier']:8s} eval={cov['evaluations']:>12} nontrivial={cov['distinct_nontrivial']:>10} viol={e.get('violations')} wall={e['wall_s']:.1f}s exhaustive={cov.get('exhaustive')}")
    except Exception as ex:
        ok = False
        print("  INVALID", f, str(ex)[:200])
sys.exit(0 if ok else 1)
