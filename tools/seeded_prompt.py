# Creates scratch worktrees /tmp/seed<round>/<ID> of /repo plus OUT/PROPERTY.txt and OUT/PROMPT.txt (the complete brief a seeding sub-agent gets).
# usage: python3 tools/seeded_prompt.py <round> C01,C02,...   (remove the worktrees afterwards: git -C /repo worktree remove --force <dir>)
import json,subprocess,os,sys
rnd=sys.argv[1]; ids=sys.argv[2].split(',')
areas={"C01":"src/adsr.rs, src/phase_accumulator.rs","C02":"src/adsr.rs, src/phase_accumulator.rs","C03":"src/adsr.rs, src/phase_accumulator.rs, src/utils.rs",
"C04":"src/mono_midi_receiver.rs","C05":"src/mono_midi_receiver.rs","C06":"src/mono_midi_receiver.rs (parse(); the byte-stream parser itself is the midi-convert dependency, which you cannot change - but you may add pre-filtering, caching, fast paths or extra handling in the receiver)",
"C07":"src/quantizer.rs","C08":"src/quantizer.rs","C09":"src/quantizer.rs","C10":"src/lfo.rs, src/phase_accumulator.rs","C11":"src/lfo.rs, src/phase_accumulator.rs","C12":"src/lfo.rs, src/phase_accumulator.rs",
"C13":"src/glide_processor.rs","C14":"src/glide_processor.rs","C15":"src/ribbon_controller.rs","C16":"src/ribbon_controller.rs","C17":"all modules under src/","C18":"src/mono_midi_receiver.rs","C19":"src/quantizer.rs","C20":"src/adsr.rs, src/quantizer.rs, src/mono_midi_receiver.rs"}
base=f'/tmp/seed{rnd}'
os.makedirs(base,exist_ok=True)
for l in open('/verif/properties.jsonl'):
    p=json.loads(l); pid=p['id']
    if pid not in ids: continue
    d=f'{base}/{pid}'
    subprocess.run(["git","-C","/repo","worktree","add","--detach",d,"HEAD"],capture_output=True)
    subprocess.run(["cp","/repo/Cargo.lock",d+"/"])
    os.makedirs(d+"/OUT",exist_ok=True)
    open(d+'/OUT/PROPERTY.txt','w').write("%s — %s\n\nStatement: %s\n\nQuantified over: %s\n"%(pid,p['title'],p['statement'],p['quantifier']['text']))
    extra = "Note: for this property panics only count with arithmetic-overflow checks and debug assertions enabled (the default `cargo test` dev profile has both on), and arguments must stay inside the documented ranges listed in the property.\n" if pid=="C17" else ""
    open(d+'/OUT/PROMPT.txt','w').write(f"""Produce a *seeded defect*: a small realistic code change that breaks one specific behavioural property of a Rust library while still compiling and passing its existing unit tests, and that is HARD FOR RANDOMIZED (property-based / fuzz) TESTING TO HIT while still being something a maintainer could plausibly write. Prefer a defect that needs TWO cooperating code sites that each look fine alone, or a multi-step history, or a particular configuration, over a single wrong constant.

WORK STYLE - IMPORTANT: think briefly, act with small tool calls, never paste whole files, keep every message under 150 words and the demo under 60 lines. Decide on an idea within your first few steps.

Library: git worktree of the crate `synth-utils` (ADSR envelope, LFO, MIDI receiver, quantizer, ribbon controller, glide) at {d} . Work ONLY inside it (do not touch /verif or /repo; no commits; no other worktrees). Offline. Build/test with exactly:
  cd {d} && CARGO_TARGET_DIR={d}/target CARGO_NET_OFFLINE=true cargo test --offline
(first build ~2 min). Feature `verif-hooks` gives read-only accessors Adsr::verif_state(), Adsr::verif_phase_bits(), Lfo::verif_phase_bits() for demos (`--features verif-hooks`).

The property to break is in {d}/OUT/PROPERTY.txt ({pid}: {p['title']}); it is mainly about {areas[pid]}.
{extra}
Requirements: change src/ only; crate compiles; all 62 unit tests + 4 doctests still pass; the violation manifests only in a NARROW region that a random generator is unlikely to reach by luck. It must read like a plausible slip, refactoring, caching or optimisation - no unexplained magic constants - and must not revert any of the recent "fix:" commits visible in `git log`.

Deliver into {d}/OUT/ : patch.diff (`git diff -- src`, must `git apply` on clean HEAD), seeded_demo.rs (copy of tests/seeded_demo.rs: an integration test using only the public API (+ optionally verif-hooks) that FAILS with the change and PASSES without; verify both directions: save diff, `git checkout src`, run, `git apply OUT/patch.diff`, run), meta.json {{"property": "{pid}", "summary": "...", "needs_to_manifest": "...", "demo_cmd": "...", "tests_pass_with_change": true, "demo_fails_with_change": true, "demo_passes_without_change": true}}. Leave the change applied. Final report: under 150 words.
""")
print(sorted(os.listdir(base)))
