#!/usr/bin/env python3
"""Generate mutants/<name>.patch from mutants/defs.py (diffs against /repo HEAD, made in a scratch worktree)."""
import os, subprocess, sys, shutil
HERE = os.path.dirname(os.path.dirname(os.path.abspath(__file__)))
sys.path.insert(0, os.path.join(HERE, "mutants"))
import defs

SCR = "/tmp/vmut_make"
subprocess.run(["git", "-C", "/repo", "worktree", "remove", "--force", SCR], capture_output=True)
shutil.rmtree(SCR, ignore_errors=True)
subprocess.run(["git", "-C", "/repo", "worktree", "add", "--detach", SCR, "HEAD"], check=True, capture_output=True)
try:
    for f in os.listdir(os.path.join(HERE, "mutants")):
        if f.endswith(".patch"):
            os.remove(os.path.join(HERE, "mutants", f))
    for d in defs.M:
        p = os.path.join(SCR, d["file"])
        s = open(p).read()
        if s.count(d["old"]) != 1:
            print("SKIP (anchor count %d): %s" % (s.count(d["old"]), d["name"]))
            continue
        open(p, "w").write(s.replace(d["old"], d["new"]))
        diff = subprocess.run(["git", "-C", SCR, "diff"], capture_output=True, text=True).stdout
        subprocess.run(["git", "-C", SCR, "checkout", "--", "."], check=True)
        hdr = "# mutant: %s\n# expected to be caught by: %s\n# effect: %s\n" % (d["name"], " ".join(d["props"]) or "(none: must stay silent)", d["note"])
        open(os.path.join(HERE, "mutants", d["name"] + ".patch"), "w").write(hdr + diff)
    print("wrote", len([f for f in os.listdir(os.path.join(HERE, "mutants")) if f.endswith(".patch")]), "patches")
finally:
    subprocess.run(["git", "-C", "/repo", "worktree", "remove", "--force", SCR], capture_output=True)
    shutil.rmtree(SCR, ignore_errors=True)
