#!/usr/bin/env python3
"""Writes /verif/MANIFEST.json from the table below (single source of truth for what is claimed)."""
import json, os, subprocess

HERE = os.path.dirname(os.path.dirname(os.path.abspath(__file__)))

def repo_commits():
    out = subprocess.run(["git", "-C", "/repo", "log", "--format=%h %s"], capture_output=True, text=True).stdout
    return [l.split()[0] for l in out.splitlines() if "verif-hooks" in l]

TRUST = ("generated-input search: a pass means no counterexample among the cases explored (counts in the evidence file), "
         "not absence; trusted: rustc/cargo, proptest's generators and shrinker, the reference models in /verif/core "
         "(closed forms / spec decoder / f64 window average), ")

CLAIMS = {
 "C01": dict(engine="adsr_history", design="3 ADSR / C01",
   technique="model-based property testing (proptest op histories + per-tick oracle against closed-form RC curves)",
   text="Every tick of generated gate/tick/parameter histories is checked for range, per-phase monotonicity, exact end levels (==) and <=0.5% distance to the documented RC curve computed independently in f64; sampled over sample rates, times (incl. clamped/non-finite), sustain levels and re-trigger points reached with a seek macro so slow phases are examined at every position.",
   note=TRUST + "hooks verif_state/verif_phase_bits report phase and counter truthfully."),
 "C02": dict(engine="adsr_history", design="3 ADSR / C02",
   technique="model-based property testing (reference phase state machine with a duration window, proptest histories + configuration sweeps)",
   text="A reference state machine with the statement's gate guards is compared with the real phase after every call and tick; a timed phase may end only when the summed per-tick phase fractions (times 1+2^-22) reach 1 and must have ended one tick after the sum reduced by one counter step per tick reaches 1. Configurations with T*fs<1 are over-weighted.",
   note=TRUST + "hook verif_state reports the phase truthfully."),
 "C03": dict(engine="adsr_history", design="3 ADSR / C03",
   technique="property-based testing (per-tick step bound over generated histories, small-increment phases and gate events at arbitrary levels)",
   text="For every pair of consecutive outputs the step is bounded by 1.01 x steepest table slope x segment amplitude x min(1,1/N) plus the sustain change plus 6e-7, over histories that include very slow phases (several ticks per table cell), gate events at arbitrary levels and every phase boundary.",
   note=TRUST + "slope constants derived from the closed-form curves x 1024/1023 (table stretch)."),
 "C10": dict(engine="c10_sweep+lfo_history", design="3 LFO / C10",
   technique="exhaustive enumeration of the 2^24 phase counter values (thorough) / strided + dense ranges (quick), plus proptest histories; exact reference per shape",
   text="All five shapes are compared at every visited phase with exact references (saw/triangle/square exact in f32, sine within 0.0125 of sin(2 pi phase)); reads in generated orders must be pure and repeatable. Thorough enumerates all 2^24 counter values.",
   note=TRUST + "hook Lfo::verif_phase_bits is the phase."),
 "C11": dict(engine="lfo_history", design="3 LFO / C11",
   technique="model-based property testing (proptest histories; exact counter arithmetic oracle)",
   text="After every op of generated tick/set_frequency/set_phase/reset histories the exact counter is compared with the statement's arithmetic: reset -> 0, set_phase within 2^-22, negative phases depend only on p mod 1 (exact metamorphic pairs), first tick after a frequency change within [x(1-2^-23)-1, x(1+2^-23)] counts, every further tick advances by exactly the same amount, set_frequency never moves the phase.",
   note=TRUST + "hook Lfo::verif_phase_bits is the phase; frequencies in [0,fs], finite phases."),
 "C12": dict(engine="c12_walk+lfo_history", design="3 LFO / C12",
   technique="exhaustive enumeration of all 2^24 adjacent phase pairs at increment 1 incl. the wrap (thorough) / wrap region + sampled cells (quick), plus proptest walks with larger increments",
   text="Every adjacent pair of the smallest-increment walk and generated (start, increment) walks is checked against |dSine| <= 2pi*1.002*d+2ulp and |dTriangle| <= 4d with d the nominal per-tick phase step (the steady step since the last frequency change).",
   note=TRUST + "hook Lfo::verif_phase_bits is the phase."),
 "C20": dict(engine="c20_bits+differentials", design="3 Cross-cutting / C20",
   technique="exhaustive enumeration of all 2^32 f32 bit patterns (thorough) / strided + special patterns (quick) and all u8; differential property testing raw vs clamped configuration",
   text="Both float conversions are compared with a reference clamp for every bit pattern (NaN must become a bound), Note for all 256 u8; differentials on generated histories show that an envelope / quantizer / receiver configured with the raw value behaves bit-identically to one configured with the clamped value.",
   note=TRUST + "numeric == decides 'unchanged' (-0.0 == 0.0)."),
 "C04": dict(engine="midi_model", design="3 MIDI / C04",
   technique="model-based property testing (proptest message histories vs independent MIDI decoder + held-note model)",
   text="After every complete message of generated note-on/off/velocity-0/All-Notes-Off histories (pool of colliding notes, duplicates, stray releases, priority and retrigger switches, all channels) gate(), note_num() and velocity() are compared with a reference model of the outstanding note-ons.",
   note=TRUST + "at most 32 outstanding note-ons (longer cases truncated and counted); CC123 with a non-zero value byte accepted under either reading."),
 "C05": dict(engine="midi_model", design="3 MIDI / C05",
   technique="model-based property testing (proptest histories with edge polls at arbitrary positions vs two-latch model)",
   text="Every rising_gate()/falling_gate() poll placed anywhere in generated histories is compared with a two-latch reference driven by the gate transitions actually observed on the receiver (so the oracle does not depend on C04), plus the implications rising=>gate high and falling=>gate low.",
   note=TRUST + "edges are latches: two transitions between two polls give one true, as the statement's 'unless ... before it is read' clauses say."),
 "C06": dict(engine="midi_stream+midi_meta", design="3 MIDI / C06",
   technique="differential + metamorphic property testing on generated byte streams (and libFuzzer target midi_stream in the thorough tier)",
   text="After every byte of unstructured and structured generated streams all getters of the receiver equal those of a second receiver fed only the canonical supported listened-channel messages found by an independent MIDI 1.0 decoder; no panic with debug assertions on; decoder-free metamorphic check: inserting real-time bytes anywhere and foreign-channel/unsupported messages between messages changes no output.",
   note=TRUST + "the reference decoder encodes MIDI 1.0 framing as listed in the evidence assumptions; the differential isolates framing from note/controller semantics (those are C04/C05/C18)."),
 "C07": dict(engine="quant_history", design="3 Quantizer / C07",
   technique="model-based property testing (proptest allow/forbid/convert histories vs 12-bit scale model)",
   text="After every edit the 12 is_allowed() answers equal the model scale (incl. clamped note numbers and the would-empty rule); every conversion's pitch class must be allowed at that moment, with histories that forbid the class of the note just returned and convert the same or a nudged input in every octave.",
   note=TRUST + "none beyond the scale model."),
 "C08": dict(engine="quant_fresh", design="3 Quantizer / C08",
   technique="exhaustive over all 4095 scales with generated input grids (all decision boundaries) and complete microvolt sweeps for selected scales; acceptance-predicate oracle",
   text="For every non-empty scale a fresh quantizer converts a dense input list containing every decision boundary of every pair of notes (+-1 uV, +-20 uV), random and out-of-range inputs; the result must satisfy the statement's rule (one-semitone-below window, otherwise nearest, ties within 10 uV) computed independently in f64, and never decrease along sorted inputs. Thorough adds complete 10,000,001-value sweeps for 46 scales.",
   note=TRUST + "10 uV tie tolerance."),
 "C09": dict(engine="quant_history", design="3 Quantizer / C09",
   technique="model-based + differential property testing (window model inside, field-by-field comparison with a history-free instance outside)",
   text="On generated ramps, boundary noise, jumps and scale edits: inside the widened bucket of a still-allowed previous note the note must not change; outside it the whole record must equal that of a fresh quantizer with the same scale; derived: sub-hysteresis noise gives <= 1 change, rising inputs give non-decreasing notes.",
   note=TRUST + "20 uV strips at the window edges accept either outcome."),
 "C18": dict(engine="midi_c18_cell+midi_model", design="3 MIDI / C18",
   technique="exhaustive enumeration channel x controller x value and all 16384 bend values (thorough: all 16 channels), plus model-based proptest histories",
   text="Every controller number x value on the listened and on a foreign channel from a non-default prior state, all pitch-bend values LSB first, value-axis scaling; compared with the statement's routing table bit-exactly; histories interleave controllers, bend and notes.",
   note=TRUST + "CC121 with a non-zero value accepted under either reading (must be all-or-nothing)."),
 "C19": dict(engine="quant_history+quant_fresh", design="3 Quantizer / C19",
   technique="property-based testing over histories and all scales (record consistency oracle)",
   text="Every conversion of generated histories and of fresh quantizers over all 4095 scales: stairstep == note/12 bit-exact, stairstep+fraction within 2 ulps of the input (or its clamped value outside [0,10]), chromatic/no-history fraction in [0,1) semitone, window-kept fraction in [-0.1,1.1] semitones.",
   note=TRUST + "the window clause is armed only when the record shows the window path was taken (fraction reproduces the unclamped input); NaN inputs are left to C17."),
 "C13": dict(engine="glide_c13", design="3 Glide / C13",
   technique="property-based testing over generated input/set_time schedules with a history invariant (hull, monotone approach, no crossing, settling) and a derived f32-resolution allowance",
   text="After every sample of generated schedules (times incl. 0 and <= 2/fs switched in mid-glide, inputs in [-10,10]) the output must stay in the hull of 0 and the inputs seen, approach a held input monotonically without crossing it, and be within 1% after max(3t, 8 samples); rounding allowance E_n = (1-a)E_{n-1} + 4 ulp reported as observed/allowed. A case rejected by this tight oracle is re-judged with the allowance and settle horizon of the slowest legal setting; only a failure of both is a violation (slowness relative to the time setting is C14's business).",
   note=TRUST + "times in [0,10], inputs in [-10,10]; in-band set_time calls may or may not take effect (slowest admissible time sizes the allowance)."),
 "C14": dict(engine="glide_c14", design="3 Glide / C14",
   technique="property-based testing of step responses over the (fs,t) plane plus differential testing of set_time histories against fresh instances",
   text="Step responses of fresh processors over generated (fs, t, base, step): coverage in [0.40,0.55] at t/10 and >= 0.995 at t (t*fs >= 100), fastest response below two samples, t > 10 s identical to 10 s; histories of set_time calls (creep progressions inside/outside the 0.05 s dead band) must respond like a processor on which one of the times the statement allows to be in effect was set by two out-of-band calls.",
   note=TRUST + "an in-band call may be ignored or honoured; fresh processor = time 0."),
 "C15": dict(engine="ribbon_history", design="3 Ribbon / C15",
   technique="model-based property testing (run-length model + edge latches over generated multi-press histories at 16 compiled sample rates)",
   text="After every sample of generated histories (glitches, taps of any length below the capture length, runs of exactly L*-1, L*, L*+1, long presses, separated by 1-3 out-of-range samples) finger_is_pressing() must equal (current unbroken run >= L*); edge getters compared with two latches at generated poll positions; L* must be capacity + settling (-1).",
   note=TRUST + "samples at least 1e-3 away from the in-range boundary; integer sample rates from the compiled set."),
 "C16": dict(engine="ribbon_history+ribbon_perturb", design="3 Ribbon / C16",
   technique="property-based testing with an f64 reference computation plus metamorphic re-runs (earlier presses replaced, newest samples replaced, one sample raised)",
   text="While pressed, value() is compared with an independent f64 computation from the samples of the current run only (window, pull-up correction, rescale), range and min/max clauses; retained bit-identically while lifted; three metamorphic relations give bit-exact independence from earlier presses and from the newest samples, and monotonicity in each contributing sample.",
   note=TRUST + "pull-up >= divider resistance; tolerance 1e-5 + capacity*2^-23."),
 "C17": dict(engine="api_any", design="3 Cross-cutting / C17",
   technique="robustness property testing / API fuzzing under catch_unwind with overflow checks and debug assertions on (proptest; libFuzzer target api_any in the thorough tier) plus bounded-liveness checks of the envelope",
   text="Generated call sequences on all six modules with range end points, subnormals, zeros, huge finite values and NaN/inf where allowed; any unwind is a violation; every generated envelope configuration must reach exactly sustain / exactly rest within twice the statement's tick bound.",
   note=TRUST + "'fails to return' is decided as bounded liveness of the envelope (all other operations are loop-free); a wall-clock watchdog reports exit 2."),
}

NOT_YET = {}

def main():
    props = [json.loads(l) for l in open(os.path.join(HERE, "properties.jsonl"))]
    checks = []
    na = []
    for p in props:
        pid = p["id"]
        if pid in CLAIMS:
            c = CLAIMS[pid]
            checks.append({
                "property_id": pid,
                "quick_cmd": f"./check {pid} quick",
                "thorough_cmd": f"./check {pid} thorough",
                "evidence_file": f"/verif/evidence/{pid}.json",
                "replay_cmd_template": "./check replay {path}",
                "engine": c["engine"],
                "level_claimed": {"category": "exploration", "text": c["text"], "design_ref": "DESIGN.md section " + c["design"]},
                "level_note": c["note"],
                "technique": c["technique"],
            })
        else:
            na.append({"property_id": pid, "reason": NOT_YET.get(pid, "check not built yet in this round (planned in DESIGN.md section 3); not claimed")})
    m = {
        "version": 1,
        "setup_cmd": "./check build",
        "hooks": {
            "guard": "cargo feature verif-hooks",
            "enable": "the harness depends on synth-utils = { path = \"/repo\", features = [\"verif-hooks\"] } (see core/Cargo.toml); cargo rebuilds it from /repo's working tree on every ./check run",
            "baseline_off_cmd": "cd /repo && cargo test --workspace --no-fail-fast --offline",
            "source_commits": repo_commits(),
            "add_only": True,
        },
        "engines": [
            {"name": "vcheck", "path": "/verif/harness", "serves_properties": sorted(CLAIMS), "kind_free_text": "proptest model-based / property-based runners and complete generators, fixed seeds from VERIF_SEED, shrinking, replay files"},
            {"name": "vfuzz", "path": "/verif/fuzz", "serves_properties": ["C01","C02","C03","C04","C05","C06","C07","C08","C09","C13","C15","C16","C17","C18","C19"], "kind_free_text": "cargo-fuzz / libFuzzer targets (thorough tier): bytes are hand-decoded into the same case types and judged by the same oracles; crash artifacts are re-judged in-process and become ordinary replay files"},
            {"name": "vcore", "path": "/verif/core", "serves_properties": sorted(CLAIMS), "kind_free_text": "case types, interpreters, reference models and oracles shared by the proptest harness and the libFuzzer targets"},
        ],
        "checks": checks,
        "notes": "Sensitivity evidence: mutants/RESULTS.md (68 mutants) and seeded/*/meta.json (changes written by independent sub-agents). Findings so far are listed in /verif/known_findings.txt (fixed: lines = repaired in /repo by a 'fix:' commit). ./check exits 2 (INCONCLUSIVE) on build failure or watchdog, never 1.",
        "not_applicable": na,
    }
    json.dump(m, open(os.path.join(HERE, "MANIFEST.json"), "w"), indent=1)
    print("claimed:", len(checks), "not claimed:", len(na))

if __name__ == "__main__":
    main()
