//! vcore: case types, interpreters, reference models and oracles for the synth-utils-rs properties C01..C20.
pub mod adsr;
pub mod api;
pub mod clamp;
pub mod common;
pub mod decode;
pub mod glide;
pub mod lfo;
pub mod midi;
pub mod quant;
pub mod ribbon;
pub mod ribbon_rates;
