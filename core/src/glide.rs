//! Glide processor: C13 (no overshoot / ringing, converges), C14 (the time setting means what it says).

use crate::common::*;
use serde::{Deserialize, Serialize};
use synth_utils::glide_processor::GlideProcessor;

/// lower bound of (1 - pole) of the one-pole filter for the time `te` in effect (both one-pole designs of the
/// biquad crate, any cutoff clamp in [fs/4, fs/2]); used only to size the rounding allowance.
pub fn alpha_lb(te: f64, fs: f64) -> f64 {
    let f0 = if te > 0.0 { (1.0 / te).clamp(0.1, fs / 2.0) } else { fs / 2.0 };
    let w = 2.0 * std::f64::consts::PI * f0 / fs;
    0.9 * w / (1.0 + w)
}

/// bound on how far f32 rounding can push the output away from the exact recursion ("the f32 resolution of the
/// filter"): E_n = (1-alpha) E_{n-1} + 4 ulp(S_n), S_n = largest magnitude seen so far
#[derive(Debug, Clone, Copy)]
pub struct Res {
    pub e: f64,
    pub s: f64,
}

impl Res {
    pub fn new() -> Self {
        Res { e: 0.0, s: 0.0 }
    }
    pub fn step(&mut self, alpha: f64, x: f32, y: f32) {
        self.s = self.s.max(x.abs() as f64).max(y.abs() as f64);
        let u = if self.s > 0.0 { ulp32(self.s as f32) } else { 0.0 };
        self.e = (1.0 - alpha) * self.e + 4.0 * u;
    }
}

/// the set of times that may be in effect after a sequence of set_time calls (dead band 0.05 s: an in-band call
/// may be ignored or honoured, an out-of-band call must be honoured). A fresh processor behaves like time 0.
#[derive(Debug, Clone)]
pub struct Cands(pub Vec<f64>);

impl Cands {
    pub fn fresh() -> Self {
        Cands(vec![0.0])
    }
    pub fn call(&mut self, t: f64) -> (bool, bool) {
        // returns (some candidate in band, some candidate out of band)
        let mut next: Vec<f64> = vec![];
        let mut inb = false;
        let mut outb = false;
        for &c in &self.0 {
            let d = (t - c).abs();
            if d > 0.0501 {
                outb = true;
                next.push(t);
            } else if d < 0.0499 {
                inb = true;
                next.push(c);
                next.push(t);
            } else {
                next.push(c);
                next.push(t);
            }
        }
        next.sort_by(|a, b| a.partial_cmp(b).unwrap());
        next.dedup();
        self.0 = next;
        (inb, outb)
    }
    pub fn alpha(&self, fs: f64) -> f64 {
        self.0.iter().map(|&t| alpha_lb(t, fs)).fold(f64::INFINITY, f64::min)
    }
    /// seconds after which a held input must have settled
    pub fn settle_s(&self, fs: f64) -> f64 {
        self.0.iter().map(|&t| (3.0 * t.min(10.0)).max(8.0 / fs)).fold(0.0, f64::max)
    }
    pub fn min_time(&self) -> f64 {
        self.0.iter().cloned().fold(f64::INFINITY, f64::min)
    }
}

#[derive(Debug, Clone, Serialize, Deserialize, PartialEq)]
pub enum GlideOp {
    SetTime(f32),
    /// set_time(u * 2 / fs), u in [0,1]: the "glide off" region
    FastSwitch(f32),
    Input(f32),
    /// input := the current output (the target is already reached)
    InputCurrent,
    Run(u32),
    /// run for the settle time of the setting in effect (capped by the budget)
    RunSettle,
    /// n times: set_time(a), one sample, set_time(b), one sample (many honoured / ignored calls in a row)
    TimeBurst {
        a: f32,
        b: f32,
        n: u16,
        /// true: the calls follow each other with no sample processed in between (one sample after the whole burst)
        #[serde(default)]
        idle: bool,
    },
}

#[derive(Debug, Clone, Serialize, Deserialize, PartialEq)]
pub struct GlideCase {
    pub fs: f32,
    pub ops: Vec<GlideOp>,
}

pub struct CaseInfo {
    pub nontrivial: bool,
}

/// C13 with a two-stage verdict: the tight oracle sizes the rounding allowance and the settle horizon from the time
/// the statement says is in effect; a case it rejects is re-judged with the allowance and horizon of the slowest legal
/// setting (10 s). Only a case that fails both is a C13 violation - behaviour that is merely slower than the time
/// setting suggests is C14's business, not C13's.
pub fn run_c13(case: &GlideCase, budget: u64, stats: &mut Stats) -> Result<CaseInfo, Failure> {
    match run_c13_with(case, budget, stats, false) {
        Ok(i) => Ok(i),
        Err(tight) => {
            let mut scratch = Stats::default();
            match run_c13_with(case, budget, &mut scratch, true) {
                Ok(_) => {
                    stats.count("label.tight_oracle_alarm_explained_by_a_slower_time_in_effect", 1);
                    Ok(CaseInfo { nontrivial: false })
                }
                Err(_) => Err(tight),
            }
        }
    }
}

fn run_c13_with(case: &GlideCase, budget: u64, stats: &mut Stats, robust: bool) -> Result<CaseInfo, Failure> {
    let fs = case.fs as f64;
    let mut g = GlideProcessor::new(case.fs);
    let mut cands = Cands::fresh();
    let mut res = Res::new();
    let mut x: f32 = 0.0;
    let mut y: f32 = 0.0;
    let mut lo: f64 = 0.0;
    let mut hi: f64 = 0.0;
    let mut n: u64 = 0;
    // hold tracking
    let mut x_prev_sample: Option<f32> = None; // input fed with the previous sample
    let mut hold_start_n: u64 = 0;
    let mut hold_start_err: f64 = 0.0;
    let mut hold_valid = false;
    let mut switched_mid_glide = false;
    let mut fast_time_seen = false;
    let mut settle_checks = 0u64;

    let mut expanded: Vec<GlideOp> = Vec::with_capacity(case.ops.len());
    for op in &case.ops {
        if let GlideOp::TimeBurst { a, b, n, idle } = op {
            for _ in 0..*n {
                expanded.push(GlideOp::SetTime(*a));
                if !*idle {
                    expanded.push(GlideOp::Run(1));
                }
                expanded.push(GlideOp::SetTime(*b));
                if !*idle {
                    expanded.push(GlideOp::Run(1));
                }
            }
            if *idle {
                expanded.push(GlideOp::Run(1));
            }
        } else {
            expanded.push(op.clone());
        }
    }
    for (step, op) in expanded.iter().enumerate() {
        let mut run_n: u64 = 0;
        match op {
            GlideOp::TimeBurst { .. } => {}
            GlideOp::SetTime(t) | GlideOp::FastSwitch(t) => {
                let t = match op {
                    GlideOp::FastSwitch(u) => (*u as f64 * 2.0 / fs) as f32,
                    _ => *t,
                };
                g.set_time(t);
                cands.call(t as f64);
                if (x as f64 - y as f64).abs() > 100.0 * res.e.max(1e-12) && (x as f64 - y as f64).abs() > 1e-3 {
                    switched_mid_glide = true;
                    stats.count("label.set_time_while_gliding", 1);
                    if (t as f64) <= 2.0 / fs {
                        stats.count("label.switch_to_fastest_while_gliding", 1);
                    }
                }
                if cands.min_time() <= 4.0 / fs {
                    fast_time_seen = true;
                }
                // a setting change restarts the settle clock
                hold_valid = false;
            }
            GlideOp::Input(v) => x = *v,
            GlideOp::InputCurrent => x = y,
            GlideOp::Run(k) => run_n = *k as u64,
            GlideOp::RunSettle => run_n = (cands.settle_s(fs) * fs).ceil() as u64 + 2,
        }
        let run_n = run_n.min(budget.saturating_sub(n));
        for _ in 0..run_n {
            let y_prev = y;
            let out = catch(|| g.process(x));
            y = match out {
                Ok(v) => v,
                Err(msg) => return Err(Failure::new("C13.panic", step, format!("process({}) panicked: {}", x, msg))),
            };
            n += 1;
            lo = lo.min(x as f64);
            hi = hi.max(x as f64);
            let alpha = if robust { alpha_lb(10.0, fs) } else { cands.alpha(fs) };
            res.step(alpha, x, y);
            let e = res.e;
            let yy = y as f64;
            // (1) hull
            if !(yy >= lo - e && yy <= hi + e) {
                let over = if yy > hi { yy - hi } else { lo - yy };
                return Err(Failure::new(
                    "C13.hull",
                    step,
                    format!(
                        "sample {}: output {} leaves the range [{}, {}] spanned by 0 and the inputs so far by {:e} (rounding allowance {:e}); fs = {}, times possibly in effect {:?}",
                        n, y, lo, hi, over, e, fs, cands.0
                    ),
                ));
            }
            if e > 0.0 {
                let over = (yy - hi).max(lo - yy);
                if over > 0.0 {
                    stats.ratio("hull_excess/allowance", over / e);
                }
            }
            // (2) constant input: monotone approach, no sign change
            if x_prev_sample == Some(x) {
                let d0 = x as f64 - y_prev as f64;
                let d1 = x as f64 - yy;
                if d1.abs() > d0.abs() + 2.0 * e {
                    return Err(Failure::new(
                        "C13.monotone_approach",
                        step,
                        format!(
                            "sample {}: input held at {}, distance to it grew from {:e} to {:e} (allowance {:e}); fs = {}, times possibly in effect {:?}",
                            n,
                            x,
                            d0.abs(),
                            d1.abs(),
                            2.0 * e,
                            fs,
                            cands.0
                        ),
                    ));
                }
                if d0 * d1 < 0.0 && d1.abs() > 2.0 * e {
                    return Err(Failure::new(
                        "C13.no_ringing",
                        step,
                        format!(
                            "sample {}: input held at {}, output crossed it ({} -> {}), now {:e} on the other side (allowance {:e}); fs = {}, times possibly in effect {:?}",
                            n,
                            x,
                            y_prev,
                            y,
                            d1.abs(),
                            2.0 * e,
                            fs,
                            cands.0
                        ),
                    ));
                }
                if !hold_valid {
                    hold_valid = true;
                    hold_start_n = n - 1;
                    hold_start_err = d0.abs();
                }
                // (3) settles
                let held_s = (n - hold_start_n) as f64 / fs;
                let settle_s = if robust { 30.0 } else { cands.settle_s(fs) };
                if held_s >= settle_s {
                    let allowed = 0.01 * hold_start_err + 2.0 * e;
                    settle_checks += 1;
                    if allowed > 0.0 {
                        stats.ratio("settled_distance/allowed", d1.abs() / allowed);
                    }
                    if d1.abs() > allowed {
                        return Err(Failure::new(
                            "C13.settles",
                            step,
                            format!(
                                "sample {}: input held at {} for {:.4} s (>= settle time {:.4} s), output {} still {:e} away (started {:e} away, allowance {:e}); fs = {}, times possibly in effect {:?}",
                                n,
                                x,
                                held_s,
                                cands.settle_s(fs),
                                y,
                                d1.abs(),
                                hold_start_err,
                                allowed,
                                fs,
                                cands.0
                            ),
                        ));
                    }
                }
            } else {
                hold_valid = false;
            }
            x_prev_sample = Some(x);
        }
    }
    stats.count("samples", n);
    stats.count("settle_checks", settle_checks);
    Ok(CaseInfo { nontrivial: switched_mid_glide && fast_time_seen })
}

/// run the schedule without any oracle (used by C17: only panics matter)
pub fn run_plain(case: &GlideCase, budget: u64) -> u64 {
    let mut g = GlideProcessor::new(case.fs);
    let fs = case.fs as f64;
    let (mut x, mut y, mut n) = (0.0f32, 0.0f32, 0u64);
    for op in &case.ops {
        let mut run = 0u64;
        match op {
            GlideOp::SetTime(t) => g.set_time(*t),
            GlideOp::FastSwitch(u) => g.set_time((*u as f64 * 2.0 / fs) as f32),
            GlideOp::Input(v) => x = *v,
            GlideOp::InputCurrent => x = y,
            GlideOp::Run(k) => run = *k as u64,
            GlideOp::RunSettle => run = 2000,
            GlideOp::TimeBurst { a, b, n: k, idle } => {
                for _ in 0..*k {
                    g.set_time(*a);
                    if !*idle {
                        g.process(x);
                    }
                    g.set_time(*b);
                    if !*idle {
                        y = g.process(x);
                    }
                }
                if *idle {
                    y = g.process(x);
                }
            }
        }
        for _ in 0..run.min(budget.saturating_sub(n)) {
            y = g.process(x);
            n += 1;
        }
    }
    n
}

// ------------------------------------------------------------------------------------------------ C14

/// a processor on which the time `c` is in effect under every reading of the statement: two calls, each farther than the
/// dead band from whatever is in effect before it (a fresh processor responds like time 0, so a single first call with
/// c < 0.05 s could legitimately be ignored)
pub fn processor_with_time(fs: f32, c: f32) -> GlideProcessor {
    let mut g = GlideProcessor::new(fs);
    g.set_time(c + 5.0);
    g.set_time(c);
    g
}

#[derive(Debug, Clone, Serialize, Deserialize, PartialEq)]
pub enum C14Case {
    /// fresh processor, set_time(t) with t*fs >= 100, settle at `base`, step by `delta`
    Step {
        fs: f32,
        t: f32,
        base: f32,
        delta: f32,
        /// Some(x): step to x instead of base + delta (steps whose size is not an f32, e.g. -3e38 -> 3e38)
        #[serde(default)]
        target: Option<f32>,
        /// > 0: the level `base` is reached under the fastest response (set_time(0), 8 + off_first samples of `base`),
        /// then set_time(t) is called (t >= 0.06 s, so it must be honoured) and the step follows at once
        #[serde(default)]
        off_first: u8,
    },
    /// t < 2/fs: fastest response
    Fast {
        fs: f32,
        t: f32,
        base: f32,
        delta: f32,
        #[serde(default)]
        target: Option<f32>,
    },
    /// t in (10, 1000]: like 10 s
    Long { fs: f32, t: f32, delta: f32, samples: u32 },
    /// sequence of set_time calls (zeros are processed in between), then a step; compared with fresh instances
    History { fs: f32, calls: Vec<f32>, gaps: Vec<u8>, delta: f32 },
}

fn settle_at(g: &mut GlideProcessor, res: &mut Res, alpha: f64, base: f32, samples: u64) -> f32 {
    let mut y = 0.0;
    for _ in 0..samples {
        y = g.process(base);
        res.step(alpha, base, y);
    }
    y
}

pub fn run_c14(case: &C14Case, stats: &mut Stats) -> Result<CaseInfo, Failure> {
    match case {
        C14Case::Step { fs, t, base, delta, target, off_first } => {
            let fsd = *fs as f64;
            let n = *t as f64 * fsd;
            let te = (*t as f64).min(10.0);
            let alpha = alpha_lb(te, fsd);
            let mut res = Res::new();
            let neff = te * fsd;
            let off = *off_first > 0 && *t >= 0.06 && *base != 0.0;
            let mut g = if off { processor_with_time(*fs, 0.0) } else { processor_with_time(*fs, *t) };
            let y0 = if off {
                // the level is reached with the glide switched off (statement: settled within 8 samples), then the
                // glide time is selected and the step follows immediately
                let mut y = 0.0f32;
                for _ in 0..(8 + *off_first as u32) {
                    y = g.process(*base);
                }
                if (y as f64 - *base as f64).abs() > 1e-6 * (*base as f64).abs() {
                    // the fastest response has its own clause (Fast cases); here it is only the way to the level
                    stats.count("off_first_not_settled_skipped", 1);
                    return Ok(CaseInfo { nontrivial: false });
                }
                g.set_time(*t);
                stats.count("label.step_right_after_fastest_response", 1);
                y
            } else if *base != 0.0 {
                settle_at(&mut g, &mut res, alpha, *base, (3.0 * neff).ceil() as u64 + 8)
            } else {
                0.0
            };
            let target = target.unwrap_or(*base + *delta);
            if (target as f64 - *base as f64).abs() > 1e30 {
                stats.count("label.huge_step", 1);
            }
            let d = target as f64 - y0 as f64;
            if d == 0.0 {
                // no step at all (possible only for explicit targets): nothing to measure
                return Ok(CaseInfo { nontrivial: false });
            }
            let n10 = (neff / 10.0).round() as u64;
            let n1 = neff.ceil() as u64;
            let mut y = y0;
            let mut nt = false;
            for i in 1..=n1 {
                y = g.process(target);
                res.step(alpha, target, y);
                let cov = (y as f64 - y0 as f64) / d;
                let slack = res.e / d.abs();
                if i == n10 && n10 >= 1 {
                    if slack < 0.001 {
                        stats.ratio("coverage_at_t/10_distance_from_0.475/0.075(resolution slack<0.1%)", (cov - 0.475).abs() / 0.075);
                    }
                    if !(cov >= 0.40 - slack && cov <= 0.55 + slack) {
                        return Err(Failure::new(
                            "C14.tenth",
                            0,
                            format!(
                                "fs = {}, set_time({}) ({} samples per t), step {} -> {}: after t/10 = {} samples the output covered {:.4} of the step (required 0.40..0.55, resolution slack {:e})",
                                fs, t, n, y0, target, n10, cov, slack
                            ),
                        ));
                    }
                }
                if i == n1 {
                    if slack < 0.001 {
                        stats.ratio("uncovered_at_t/0.005(resolution slack<0.1%)", (1.0 - cov) / 0.005);
                    }
                    if !(cov >= 0.995 - slack) {
                        return Err(Failure::new(
                            "C14.full_time",
                            0,
                            format!(
                                "fs = {}, set_time({}) ({} samples per t), step {} -> {}: after t = {} samples the output covered {:.5} of the step (required >= 0.995, resolution slack {:e})",
                                fs, t, n, y0, target, n1, cov, slack
                            ),
                        ));
                    }
                    nt = slack < 0.001;
                }
            }
            let _ = y;
            stats.count("samples", n1);
            if *t > 10.0 {
                stats.count("label.step_with_t_above_10s", 1);
            }
            Ok(CaseInfo { nontrivial: nt })
        }
        C14Case::Fast { fs, t, base, delta, target } => {
            let fsd = *fs as f64;
            let mut g = processor_with_time(*fs, *t);
            let alpha = alpha_lb(0.0, fsd);
            let mut res = Res::new();
            let y0 = if *base != 0.0 { settle_at(&mut g, &mut res, alpha, *base, 40) } else { 0.0 };
            let target = target.unwrap_or(*base + *delta);
            if (target as f64 - *base as f64).abs() > 1e30 {
                stats.count("label.huge_step", 1);
            }
            let d = target as f64 - y0 as f64;
            if d == 0.0 {
                return Ok(CaseInfo { nontrivial: false });
            }
            let mut y = y0;
            for _ in 0..8 {
                y = g.process(target);
                res.step(alpha, target, y);
            }
            let left = (target as f64 - y as f64).abs();
            let allowed = 0.005 * d.abs() + res.e;
            stats.ratio("fast_residual_after_8/allowed", left / allowed);
            if !(left <= allowed) {
                return Err(Failure::new(
                    "C14.fastest",
                    0,
                    format!(
                        "fs = {}, set_time({}) (< 2 samples): 8 samples after a step {} -> {} the output is {} ({:e} away, allowed {:e})",
                        fs, t, y0, target, y, left, allowed
                    ),
                ));
            }
            stats.count("samples", 8);
            Ok(CaseInfo { nontrivial: true })
        }
        C14Case::Long { fs, t, delta, samples } => {
            let fsd = *fs as f64;
            let mut a = processor_with_time(*fs, *t);
            let mut b = processor_with_time(*fs, 10.0);
            let alpha = alpha_lb(10.0, fsd);
            let mut res = Res::new();
            for i in 0..*samples {
                let (ya, yb) = (a.process(*delta), b.process(*delta));
                res.step(alpha, *delta, ya.abs().max(yb.abs()));
                let d = (ya as f64 - yb as f64).abs();
                if res.e > 0.0 {
                    stats.ratio("long_time_difference/allowed", d / (2.0 * res.e));
                }
                if d > 2.0 * res.e {
                    return Err(Failure::new(
                        "C14.above_10s",
                        0,
                        format!("fs = {}: set_time({}) gives {} at sample {}, set_time(10) gives {} (allowed difference {:e})", fs, t, ya, i, yb, 2.0 * res.e),
                    ));
                }
            }
            stats.count("samples", *samples as u64);
            Ok(CaseInfo { nontrivial: true })
        }
        C14Case::History { fs, calls, gaps, delta } => {
            let fsd = *fs as f64;
            let mut g = GlideProcessor::new(*fs);
            let mut cands = Cands::fresh();
            let mut in_band_run = 0u32;
            let mut max_in_band_run = 0u32;
            let mut nt = false;
            for (i, t) in calls.iter().enumerate() {
                g.set_time(*t);
                let (inb, outb) = cands.call(*t as f64);
                if inb && !outb {
                    in_band_run += 1;
                    max_in_band_run = max_in_band_run.max(in_band_run);
                } else {
                    if outb && in_band_run >= 2 {
                        nt = true;
                    }
                    in_band_run = 0;
                }
                let gap = gaps.get(i).copied().unwrap_or(0);
                for _ in 0..gap {
                    let y = g.process(0.0);
                    if y != 0.0 {
                        return Err(Failure::new("C14.history_zero_state", i, format!("processing 0.0 from rest produced {}", y)));
                    }
                }
            }
            if max_in_band_run >= 5 {
                stats.count("label.creep>=5", 1);
            }
            // references: one fresh processor per candidate
            let mut refs: Vec<(f64, GlideProcessor, bool)> = cands
                .0
                .iter()
                .map(|&c| (c, processor_with_time(*fs, c as f32), true))
                .collect();
            let longest = cands.0.iter().cloned().fold(0.0, f64::max).min(10.0);
            let n = ((longest * fsd).ceil() as u64).clamp(16, 20_000);
            let alpha = cands.alpha(fsd);
            let mut res = Res::new();
            let mut last = String::new();
            for i in 0..n {
                let y = g.process(*delta);
                res.step(alpha, *delta, y);
                let mut any = false;
                for (c, r, alive) in refs.iter_mut() {
                    let yr = r.process(*delta);
                    if *alive {
                        if (y as f64 - yr as f64).abs() <= 2.0 * res.e {
                            any = true;
                        } else {
                            *alive = false;
                            last = format!("candidate time {} gives {} at sample {}", c, yr, i);
                        }
                    }
                }
                if !any {
                    return Err(Failure::new(
                        "C14.dead_band",
                        calls.len(),
                        format!(
                            "fs = {}, set_time calls {:?}: the step response ({} at sample {}) matches none of the times that may be in effect {:?} (dead band 0.05 s measured from the time in effect); last rejected: {}",
                            fs, calls, y, i, cands.0, last
                        ),
                    ));
                }
            }
            stats.count("samples", n);
            stats.count("history_candidates", cands.0.len() as u64);
            Ok(CaseInfo { nontrivial: nt })
        }
    }
}
