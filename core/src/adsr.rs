//! ADSR: C01 (range/shape/levels/fidelity), C02 (phase order and duration), C03 (continuity).
//! One generator type, one interpreter, three oracles selected by a mask.

use crate::common::*;
use serde::{Deserialize, Serialize};
use synth_utils::adsr::{Adsr, Input, State, SustainLevel, TimePeriod};

pub const C01: u32 = 1;
pub const C02: u32 = 2;
pub const C03: u32 = 4;

pub const TWO24F: f64 = 16_777_216.0;
const EPS22: f64 = 1.0 / 4_194_304.0;
const Q24: f64 = 1.0 / 16_777_216.0;

#[derive(Debug, Clone, Serialize, Deserialize, PartialEq)]
pub enum AdsrOp {
    GateOn,
    GateOff,
    Tick(u32),
    /// tick until fraction q of the current timed phase is reached (q may exceed 1: runs past the phase end)
    TickFrac(f32),
    /// macro of legal calls: shorten the current phase's time, tick, restore the time, so that the phase counter
    /// lands near the target fraction in few ticks
    Seek(f32),
    SetAttack(f32),
    SetDecay(f32),
    SetRelease(f32),
    SetSustain(f32),
    /// set the time of phase `dst` (0 attack, 1 decay, 2 release) to the time currently configured for phase `src`
    /// changed by the relative amount `rel` (tiny nudges: two almost-equal times used one after the other)
    NudgeTime { dst: u8, src: u8, rel: f32 },
    /// n times: gate_on, `ticks` ticks, gate_off, `ticks` ticks (many notes in a row)
    GateBurst { n: u16, ticks: u8 },
    /// turn the time of the phase that is running right now down to `frac` samples (clamped to the 1 ms minimum by the
    /// envelope), so that it ends within the next tick(s) wherever it currently is
    CutShort(f32),
    /// n parameter writes in a row with no tick in between: set_x(a), set_x(b), set_x(a), ... for x = attack / decay /
    /// release time (which 0..2) or the sustain level (which 3)
    ParamBurst { which: u8, a: f32, b: f32, n: u16 },
}

#[derive(Debug, Clone, Serialize, Deserialize, PartialEq)]
pub struct AdsrCase {
    pub fs: f32,
    pub ops: Vec<AdsrOp>,
}

/// documented attack curve: truncated rising RC (target 3, 4 time constants), x in [0,1]
pub fn attack_curve(x: f64) -> f64 {
    let x = x.clamp(0.0, 1.0);
    (1.0 - (-4.0 * x / 3.0).exp()) / (1.0 - (-4.0f64 / 3.0).exp())
}

/// documented decay/release curve: falling RC over 4 time constants, shifted to end at 0, x in [0,1]
pub fn decay_curve(x: f64) -> f64 {
    let x = x.clamp(0.0, 1.0);
    ((-4.0 * x).exp() - (-4.0f64).exp()) / (1.0 - (-4.0f64).exp())
}

/// steepest slope (per unit phase) of the 1024-point attack table (1023 intervals stretched over 1024 cells)
pub fn attack_max_slope() -> f64 {
    (4.0 / 3.0) / (1.0 - (-4.0f64 / 3.0).exp()) * 1024.0 / 1023.0
}
pub fn decay_max_slope() -> f64 {
    4.0 / (1.0 - (-4.0f64).exp()) * 1024.0 / 1023.0
}

/// reference clamp of an envelope time (seconds). NaN: whichever bound the implementation picked (C20 decides that
/// it is a bound); if it is not a bound the minimum is assumed.
pub fn model_time(x: f32) -> f32 {
    if x.is_nan() {
        let r: f32 = TimePeriod::from(x).into();
        if r == 20.0 {
            20.0
        } else {
            0.001
        }
    } else if x < 0.001 {
        0.001
    } else if x > 20.0 {
        20.0
    } else {
        x
    }
}

pub fn model_sustain(x: f32) -> f32 {
    if x.is_nan() {
        let r: f32 = SustainLevel::from(x).into();
        if r == 1.0 {
            1.0
        } else {
            0.0
        }
    } else if x < 0.0 {
        0.0
    } else if x > 1.0 {
        1.0
    } else if x == 0.0 {
        0.0
    } else {
        x
    }
}

fn timed(s: State) -> bool {
    matches!(s, State::Attack | State::Decay | State::Release)
}

fn succ(s: State) -> State {
    match s {
        State::Attack => State::Decay,
        State::Decay => State::Sustain,
        State::Release => State::AtRest,
        x => x,
    }
}

pub struct CaseInfo {
    pub nontrivial: bool,
}

pub struct Sim<'a> {
    pub adsr: Adsr,
    fs: f64,
    mask: u32,
    stats: &'a mut Stats,
    // model of the configuration
    att: f32,
    dec: f32,
    rel: f32,
    sus: f32,
    // C02 model
    m_state: State,
    u_sum: f64,
    l_sum: f64,
    k: u64,
    deadline: Option<u64>,
    // C01, by contract: a second model of the phase progression that runs at HALF the configured speed and follows the
    // accepted gate events; once even this slow model has arrived in Sustain (or AtRest after a release) the envelope
    // must, whatever its own state variable says, sit exactly on the sustain level (or on 0.0)
    slow_state: State,
    slow_sum: f64,
    slow_released: bool,
    // levels latched at gate events (observed through value())
    v_on: f32,
    v_off: f32,
    // per tick memory
    last_v: f32,
    sus_at_last_tick: f32,
    event_since_tick: bool,
    // bookkeeping
    pub ticks: u64,
    tick_budget: u64,
    timed_ticks: u64,
    small_frac_ticks: u64,
    gate_inside_level: u32,
    gate_in_timed_phase: u32,
    phases_completed: u32,
    phase_started_clean: bool,
    step: usize,
}

impl<'a> Sim<'a> {
    pub fn new(fs: f32, mask: u32, tick_budget: u64, stats: &'a mut Stats) -> Self {
        Self {
            adsr: Adsr::new(fs),
            fs: fs as f64,
            mask,
            stats,
            att: 0.001,
            dec: 0.001,
            rel: 0.001,
            sus: 1.0,
            m_state: State::AtRest,
            u_sum: 0.0,
            l_sum: 0.0,
            k: 0,
            deadline: None,
            slow_state: State::AtRest,
            slow_sum: 0.0,
            slow_released: false,
            v_on: 0.0,
            v_off: 0.0,
            last_v: 0.0,
            sus_at_last_tick: 1.0,
            event_since_tick: true,
            ticks: 0,
            tick_budget,
            timed_ticks: 0,
            small_frac_ticks: 0,
            gate_inside_level: 0,
            gate_in_timed_phase: 0,
            phases_completed: 0,
            phase_started_clean: false,
            step: 0,
        }
    }

    fn time_of(&self, s: State) -> f32 {
        match s {
            State::Attack => self.att,
            State::Decay => self.dec,
            State::Release => self.rel,
            _ => 0.001,
        }
    }

    fn n_of(&self, s: State) -> f64 {
        self.time_of(s) as f64 * self.fs
    }

    fn fail(&self, rule: &str, detail: String) -> Failure {
        Failure::new(rule, self.step, detail)
    }

    fn check_state_sync(&self, what: &str) -> Result<(), Failure> {
        if self.mask & C02 != 0 {
            let real = self.adsr.verif_state();
            if real != self.m_state {
                return Err(self.fail(
                    "C02.transition",
                    format!("after {}: envelope is in {:?}, the phase rules require {:?}", what, real, self.m_state),
                ));
            }
        }
        Ok(())
    }

    /// when C02 is not the subject the model simply follows the real state (C01/C03 must not depend on C02)
    fn resync_if_unarmed(&mut self) {
        if self.mask & C02 == 0 {
            let real = self.adsr.verif_state();
            if real != self.m_state {
                self.m_state = real;
                self.restart_sums();
            }
        }
    }

    fn restart_sums(&mut self) {
        self.u_sum = 0.0;
        self.l_sum = 0.0;
        self.k = 0;
        self.deadline = None;
        self.phase_started_clean = true;
    }

    pub fn gate_on(&mut self) -> Result<(), Failure> {
        let real_before = self.adsr.verif_state();
        let v = self.adsr.value();
        self.adsr.gate_on();
        self.event_since_tick = true;
        // model (C02)
        if self.m_state != State::Attack {
            self.m_state = State::Attack;
            self.restart_sums();
        }
        // observed levels (used by C01/C03, keyed on the real state so that these oracles do not depend on C02)
        if real_before != State::Attack {
            self.slow_state = State::Attack;
            self.slow_sum = 0.0;
            self.slow_released = false;
            self.v_on = v;
            if timed(real_before) {
                self.gate_in_timed_phase += 1;
                self.stats.count("label.retrigger_inside_timed_phase", 1);
            }
            if v > 0.01 && v < 0.99 {
                self.gate_inside_level += 1;
            }
        } else {
            self.stats.count("label.gate_on_during_attack", 1);
            self.gate_in_timed_phase += 1;
        }
        self.resync_if_unarmed();
        self.check_state_sync("gate_on")
    }

    pub fn gate_off(&mut self) -> Result<(), Failure> {
        let real_before = self.adsr.verif_state();
        let v = self.adsr.value();
        self.adsr.gate_off();
        self.event_since_tick = true;
        if matches!(self.m_state, State::Attack | State::Decay | State::Sustain) {
            self.m_state = State::Release;
            self.restart_sums();
        }
        if matches!(real_before, State::Attack | State::Decay | State::Sustain) {
            self.slow_state = State::Release;
            self.slow_sum = 0.0;
            self.v_off = v;
            if timed(real_before) {
                self.gate_in_timed_phase += 1;
                self.stats.count("label.release_inside_timed_phase", 1);
            }
            if v > 0.01 && v < 0.99 {
                self.gate_inside_level += 1;
            }
        } else {
            self.stats.count("label.gate_off_ignored", 1);
            if real_before == State::Release {
                self.gate_in_timed_phase += 1;
            }
        }
        self.resync_if_unarmed();
        self.check_state_sync("gate_off")
    }

    pub fn set_attack(&mut self, t: f32) -> Result<(), Failure> {
        self.adsr.set_input(Input::Attack(t.into()));
        self.att = model_time(t);
        self.event_since_tick = true;
        self.check_state_sync("set_input(Attack)")
    }
    pub fn set_decay(&mut self, t: f32) -> Result<(), Failure> {
        self.adsr.set_input(Input::Decay(t.into()));
        self.dec = model_time(t);
        self.event_since_tick = true;
        self.check_state_sync("set_input(Decay)")
    }
    pub fn set_release(&mut self, t: f32) -> Result<(), Failure> {
        self.adsr.set_input(Input::Release(t.into()));
        self.rel = model_time(t);
        self.event_since_tick = true;
        self.check_state_sync("set_input(Release)")
    }
    pub fn set_sustain(&mut self, s: f32) -> Result<(), Failure> {
        self.adsr.set_input(Input::Sustain(s.into()));
        self.sus = model_sustain(s);
        self.event_since_tick = true;
        self.check_state_sync("set_input(Sustain)")
    }

    fn set_time_of(&mut self, s: State, t: f32) -> Result<(), Failure> {
        match s {
            State::Attack => self.set_attack(t),
            State::Decay => self.set_decay(t),
            State::Release => self.set_release(t),
            _ => Ok(()),
        }
    }

    pub fn budget_left(&self) -> u64 {
        self.tick_budget.saturating_sub(self.ticks)
    }

    /// one tick of the real envelope with all armed oracles
    pub fn tick_once(&mut self) -> Result<(), Failure> {
        self.ticks += 1;
        let st_before = self.adsr.verif_state();
        let m_before = self.m_state;
        let s_now = self.sus;

        // ---- C02 bookkeeping before the tick (uses the model state)
        if timed(m_before) {
            let n = self.n_of(m_before);
            let a = 1.0 / n;
            self.u_sum += a * (1.0 + EPS22);
            self.l_sum += (a - Q24).max(0.0);
            self.k += 1;
            if self.deadline.is_none() && self.l_sum >= 1.0 {
                self.deadline = Some(self.k + 1);
            }
        }

        if timed(self.slow_state) {
            let a = 1.0 / self.n_of(self.slow_state);
            self.slow_sum += 0.5 * (a - Q24).max(0.0);
            if self.slow_sum >= 1.0 {
                if self.slow_state == State::Release {
                    self.slow_released = true;
                }
                self.slow_state = succ(self.slow_state);
                self.slow_sum = 0.0;
            }
        }

        self.adsr.tick();

        let st_after = self.adsr.verif_state();
        let v = self.adsr.value();
        let bits = self.adsr.verif_phase_bits();
        let phi = bits as f64 / TWO24F;

        // ---- C02
        if self.mask & C02 != 0 {
            if timed(m_before) {
                if st_after == m_before {
                    if let Some(d) = self.deadline {
                        self.stats.ratio("phase_ticks/deadline", self.k as f64 / d as f64);
                        if self.k >= d {
                            return Err(self.fail(
                                "C02.too_long",
                                format!(
                                    "{:?} still running after {} ticks; with N = T*fs = {:.6} ticks (T = {} s, fs = {} Hz) it must end by tick {}",
                                    m_before,
                                    self.k,
                                    self.n_of(m_before),
                                    self.time_of(m_before),
                                    self.fs,
                                    d
                                ),
                            ));
                        }
                    }
                } else if st_after == succ(m_before) {
                    if self.u_sum < 1.0 {
                        return Err(self.fail(
                            "C02.too_early",
                            format!(
                                "{:?} ended after {} ticks although only {:.9} of the phase has elapsed (N = {:.6} ticks now)",
                                m_before,
                                self.k,
                                self.u_sum,
                                self.n_of(m_before)
                            ),
                        ));
                    }
                    if let Some(d) = self.deadline {
                        self.stats.ratio("phase_ticks/deadline", self.k as f64 / d as f64);
                    }
                    if self.phase_started_clean {
                        self.phases_completed += 1;
                    }
                    self.m_state = st_after;
                    self.restart_sums();
                } else {
                    return Err(self.fail(
                        "C02.order",
                        format!("tick moved the envelope from {:?} to {:?}", m_before, st_after),
                    ));
                }
            } else if st_after != m_before {
                return Err(self.fail(
                    "C02.persist",
                    format!("tick moved the envelope from {:?} to {:?} without a gate event", m_before, st_after),
                ));
            }
        } else {
            // keep the model in step with the real thing when C02 is not the subject
            self.resync_if_unarmed();
        }

        // ---- C01
        if self.mask & C01 != 0 {
            if !(v >= 0.0 && v <= 1.0) {
                return Err(self.fail(
                    "C01.range",
                    format!("value {} outside [0,1] in {:?} (phase {:.6})", v, st_after, phi),
                ));
            }
            // exact levels
            match st_after {
                State::Sustain => {
                    if v != s_now {
                        return Err(self.fail(
                            "C01.sustain_level",
                            format!("value {} while sustaining, sustain level is {}", v, s_now),
                        ));
                    }
                }
                State::AtRest => {
                    if v != 0.0 {
                        return Err(self.fail("C01.rest_level", format!("value {} at rest", v)));
                    }
                }
                State::Decay if st_before == State::Attack => {
                    if v != 1.0 {
                        return Err(self.fail(
                            "C01.attack_peak",
                            format!("attack ended at {} instead of exactly 1.0 (sustain {})", v, s_now),
                        ));
                    }
                }
                _ => {}
            }
            // by contract (independent of the envelope's own state variable)
            if self.slow_state == State::Sustain && v != s_now {
                return Err(self.fail(
                    "C01.sustain_level_by_contract",
                    format!(
                        "gate held, attack and decay times have passed twice over, sustain level {}: value {} (envelope reports {:?})",
                        s_now, v, st_after
                    ),
                ));
            }
            if self.slow_state == State::AtRest && self.slow_released && v != 0.0 {
                return Err(self.fail(
                    "C01.rest_level_by_contract",
                    format!("gate released, the release time has passed twice over: value {} (envelope reports {:?})", v, st_after),
                ));
            }
            if st_before == State::Decay && v < s_now {
                return Err(self.fail(
                    "C01.decay_floor",
                    format!("value {} below the sustain level {} during decay", v, s_now),
                ));
            }
            // monotone between events
            if !self.event_since_tick {
                let bad = match st_before {
                    State::Attack => v < self.last_v,
                    State::Decay | State::Release => v > self.last_v,
                    _ => false,
                };
                if bad {
                    return Err(self.fail(
                        "C01.monotone",
                        format!(
                            "{:?}: value went {} -> {} between two ticks with no call in between (phase {:.7})",
                            st_before, self.last_v, v, phi
                        ),
                    ));
                }
            }
            // fidelity to the documented curve
            if timed(st_after) {
                let (reference, what) = match st_after {
                    State::Attack => (
                        self.v_on as f64 + (1.0 - self.v_on as f64) * attack_curve(phi),
                        "attack",
                    ),
                    State::Decay => (s_now as f64 + (1.0 - s_now as f64) * decay_curve(phi), "decay"),
                    _ => (self.v_off as f64 * decay_curve(phi), "release"),
                };
                let e = (v as f64 - reference).abs();
                self.stats.ratio("curve_error/0.005", e / 0.005);
                if !(e <= 0.005) {
                    return Err(self.fail(
                        "C01.curve",
                        format!(
                            "{} at phase {:.7}: value {} vs documented curve {:.7} (error {:.5} > 0.005; start level on {} off {}, sustain {})",
                            what, phi, v, reference, e, self.v_on, self.v_off, s_now
                        ),
                    ));
                }
                self.timed_ticks += 1;
                // the same curve over the time that has elapsed in the phase (independent of the envelope's own phase
                // counter): after k ticks at N = T*fs ticks per phase the abscissa lies in [l_sum, u_sum] (the bounds C02
                // uses for the phase end), +- one tick for the hand-over between phases
                if st_after == self.m_state {
                    let a = 1.0 / self.n_of(st_after);
                    let lo = (self.l_sum - a - 1e-6).clamp(0.0, 1.0);
                    let hi = (self.u_sum + a + 1e-6).clamp(0.0, 1.0);
                    let (von, voff, sus) = (self.v_on as f64, self.v_off as f64, s_now as f64);
                    let f = |x: f64| match st_after {
                        State::Attack => von + (1.0 - von) * attack_curve(x),
                        State::Decay => sus + (1.0 - sus) * decay_curve(x),
                        _ => voff * decay_curve(x),
                    };
                    let (r1, r2) = (f(lo), f(hi));
                    let (rmin, rmax) = (r1.min(r2), r1.max(r2));
                    let vv = v as f64;
                    let e2 = if vv < rmin { rmin - vv } else if vv > rmax { vv - rmax } else { 0.0 };
                    self.stats.ratio("curve_error_over_elapsed_time/0.005", e2 / 0.005);
                    if !(e2 <= 0.005) {
                        return Err(self.fail(
                            "C01.curve_over_time",
                            format!(
                                "{} after {} ticks of the phase ({:.7}..{:.7} of its duration at N = {:.3} ticks): value {} vs documented curve {:.7}..{:.7} (off by {:.5} > 0.005; the envelope's own phase counter says {:.7})",
                                what, self.k, lo, hi, self.n_of(st_after), v, rmin, rmax, e2, phi
                            ),
                        ));
                    }
                }
            }
        }

        // ---- C03
        if self.mask & C03 != 0 {
            let mut slope_term: f64 = 0.0;
            for p in [st_before, st_after] {
                let (slope, amp) = match p {
                    State::Attack => (attack_max_slope(), 1.0 - self.v_on as f64),
                    State::Decay => (decay_max_slope(), 1.0 - s_now as f64),
                    State::Release => (decay_max_slope(), self.v_off as f64),
                    _ => (0.0, 0.0),
                };
                if slope > 0.0 {
                    let n = self.n_of(p);
                    let frac = (1.0 / n).min(1.0);
                    slope_term = slope_term.max(slope * amp.abs() * frac);
                }
            }
            let ds = (s_now as f64 - self.sus_at_last_tick as f64).abs();
            let bound = 1.01 * slope_term + ds + 6e-7;
            let d = (v as f64 - self.last_v as f64).abs();
            self.stats.ratio("step/bound", d / bound);
            if slope_term > 1e-5 {
                self.stats.ratio("step/bare_slope_bound(steps>1e-5)", (d - ds) / slope_term);
            }
            if !(d <= bound) {
                return Err(self.fail(
                    "C03.step",
                    format!(
                        "value stepped {} -> {} (|d| = {:e}) in {:?}->{:?}; allowed {:e} (slope term {:e}, sustain change {:e}); phase {:.7}, N = {:.3}",
                        self.last_v,
                        v,
                        d,
                        st_before,
                        st_after,
                        bound,
                        slope_term,
                        ds,
                        phi,
                        self.n_of(st_before)
                    ),
                ));
            }
            if timed(st_before) && 1.0 / self.n_of(st_before) < 1.0 / 4096.0 {
                self.small_frac_ticks += 1;
            }
        }

        self.last_v = v;
        self.sus_at_last_tick = s_now;
        self.event_since_tick = false;
        Ok(())
    }

    pub fn tick_n(&mut self, n: u64) -> Result<(), Failure> {
        let n = n.min(self.budget_left());
        for _ in 0..n {
            self.tick_once()?;
        }
        Ok(())
    }

    pub fn apply(&mut self, step: usize, op: &AdsrOp) -> Result<(), Failure> {
        self.step = step;
        match op {
            AdsrOp::GateOn => self.gate_on(),
            AdsrOp::GateOff => self.gate_off(),
            AdsrOp::Tick(n) => self.tick_n(*n as u64),
            AdsrOp::TickFrac(q) => {
                let st = self.adsr.verif_state();
                if timed(st) {
                    let phi = self.adsr.verif_phase_bits() as f64 / TWO24F;
                    let n = self.n_of(st);
                    let want = ((*q as f64 - phi) * n).ceil();
                    let k = if want.is_finite() && want >= 1.0 { want as u64 } else { 1 };
                    self.tick_n(k)
                } else {
                    self.tick_n(1)
                }
            }
            AdsrOp::Seek(target) => {
                let st = self.adsr.verif_state();
                if !timed(st) {
                    return self.tick_n(1);
                }
                let phi = self.adsr.verif_phase_bits() as f64 / TWO24F;
                let target = (*target as f64).clamp(0.0, 0.999);
                let delta = target - phi;
                if !(delta > 0.0) {
                    return Ok(());
                }
                let k = (delta * self.fs * 0.001).ceil().max(1.0);
                let t_fast = (k / (delta * self.fs)) as f32;
                if !(t_fast >= 0.001 && t_fast <= 20.0) {
                    return Ok(());
                }
                let orig = self.time_of(st);
                if t_fast >= orig {
                    // the phase is already at least this fast: plain ticks do the same
                    let kk = (delta * self.n_of(st)).floor().max(1.0) as u64;
                    return self.tick_n(kk);
                }
                self.stats.count("label.seek", 1);
                self.set_time_of(st, t_fast)?;
                self.tick_n(k as u64)?;
                // restore only if the phase is still the same (otherwise the time belongs to a finished phase; restore anyway)
                self.set_time_of(st, orig)
            }
            AdsrOp::SetAttack(t) => self.set_attack(*t),
            AdsrOp::SetDecay(t) => self.set_decay(*t),
            AdsrOp::SetRelease(t) => self.set_release(*t),
            AdsrOp::SetSustain(s) => self.set_sustain(*s),
            AdsrOp::CutShort(frac) => {
                let st = self.adsr.verif_state();
                if timed(st) {
                    self.stats.count("label.running_phase_cut_short", 1);
                    let t = (*frac as f64 / self.fs) as f32;
                    self.set_time_of(st, t)
                } else {
                    Ok(())
                }
            }
            AdsrOp::GateBurst { n, ticks } => {
                self.stats.count("label.gate_burst", 1);
                for _ in 0..*n {
                    if self.budget_left() == 0 {
                        break;
                    }
                    self.gate_on()?;
                    self.tick_n(*ticks as u64)?;
                    self.gate_off()?;
                    self.tick_n(*ticks as u64)?;
                }
                Ok(())
            }
            AdsrOp::ParamBurst { which, a, b, n } => {
                self.stats.count("label.param_burst", 1);
                for i in 0..*n {
                    let v = if i % 2 == 0 { *a } else { *b };
                    match *which % 4 {
                        0 => self.set_attack(v)?,
                        1 => self.set_decay(v)?,
                        2 => self.set_release(v)?,
                        _ => self.set_sustain(v)?,
                    }
                }
                Ok(())
            }
            AdsrOp::NudgeTime { dst, src, rel } => {
                let base = [self.att, self.dec, self.rel][(*src % 3) as usize];
                let t = (base as f64 * (1.0 + *rel as f64)) as f32;
                self.stats.count("label.nudged_time", 1);
                match *dst % 3 {
                    0 => self.set_attack(t),
                    1 => self.set_decay(t),
                    _ => self.set_release(t),
                }
            }
        }
    }

    pub fn finish(self) -> CaseInfo {
        self.stats.count("ticks", self.ticks);
        self.stats.count("phases_completed", self.phases_completed as u64);
        let nt1 = self.gate_inside_level >= 1 && self.timed_ticks >= 100;
        let nt2 = self.phases_completed >= 1 && self.gate_in_timed_phase >= 1;
        let nt3 = self.small_frac_ticks >= 50 && self.gate_inside_level >= 1;
        if self.ticks >= self.tick_budget {
            self.stats.count("cases_truncated_by_tick_budget", 1);
        }
        CaseInfo {
            nontrivial: (self.mask & C01 != 0 && nt1) || (self.mask & C02 != 0 && nt2) || (self.mask & C03 != 0 && nt3),
        }
    }
}

pub fn run_case(case: &AdsrCase, mask: u32, tick_budget: u64, stats: &mut Stats) -> Result<CaseInfo, Failure> {
    let mut sim = Sim::new(case.fs, mask, tick_budget, stats);
    for (i, op) in case.ops.iter().enumerate() {
        sim.apply(i, op)?;
        if sim.budget_left() == 0 {
            break;
        }
    }
    Ok(sim.finish())
}

/// Bounded-liveness part of C17 (also used by C02 thorough): after gate_on the envelope must reach exactly the
/// sustain level, after gate_off exactly 0, within twice the tick allowance of the phases involved.
pub fn liveness(fs: f32, att: f32, dec: f32, rel: f32, sus: f32, step: usize) -> Result<u64, Failure> {
    let mut a = Adsr::new(fs);
    a.set_input(Input::Attack(att.into()));
    a.set_input(Input::Decay(dec.into()));
    a.set_input(Input::Release(rel.into()));
    a.set_input(Input::Sustain(sus.into()));
    let bound = |t: f32| -> u64 {
        let n = model_time(t) as f64 * fs as f64;
        (2.0 * (n / (1.0 - n / TWO24F) + 2.0)).ceil() as u64 + 2
    };
    let s = model_sustain(sus);
    let on_bound = bound(att) + bound(dec);
    a.gate_on();
    let mut ticks = 0u64;
    let mut reached = false;
    for _ in 0..on_bound {
        a.tick();
        ticks += 1;
        if a.verif_state() == State::Sustain {
            reached = true;
            break;
        }
    }
    if !reached || a.value() != s {
        return Err(Failure::new(
            "C17.envelope_reaches_sustain",
            step,
            format!(
                "fs={} attack={} decay={} sustain={}: after gate_on and {} ticks (allowance {}) the envelope is in {:?} at {} instead of sustaining at {}",
                fs, att, dec, sus, ticks, on_bound, a.verif_state(), a.value(), s
            ),
        ));
    }
    let off_bound = bound(rel);
    a.gate_off();
    let mut reached = false;
    for _ in 0..off_bound {
        a.tick();
        ticks += 1;
        if a.verif_state() == State::AtRest {
            reached = true;
            break;
        }
    }
    if !reached || a.value() != 0.0 {
        return Err(Failure::new(
            "C17.release_reaches_rest",
            step,
            format!(
                "fs={} release={}: after gate_off and allowance {} ticks the envelope is in {:?} at {}",
                fs, rel, off_bound, a.verif_state(), a.value()
            ),
        ));
    }
    Ok(ticks)
}
