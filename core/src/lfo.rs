//! LFO: C10 (shapes), C11 (phase arithmetic), C12 (continuity).
//!
//! The true phase is read through the hook `Lfo::verif_phase_bits()` (raw 24-bit counter), so none of the three
//! oracles depends on another property holding.

use crate::common::*;
use serde::{Deserialize, Serialize};
use synth_utils::lfo::{Lfo, Waveshape};

pub const TWO24: u32 = 1 << 24;
pub const TWO24F: f64 = 16_777_216.0;

pub const C10: u32 = 1;
pub const C11: u32 = 2;
pub const C12: u32 = 4;

pub const SHAPES: [Waveshape; 5] = [
    Waveshape::Sine,
    Waveshape::Triangle,
    Waveshape::UpSaw,
    Waveshape::DownSaw,
    Waveshape::Square,
];

/// tolerance of the sine against sin(2 pi phase): "two table steps"
pub const SINE_TOL: f64 = 0.0125;

#[derive(Debug, Clone, Serialize, Deserialize, PartialEq)]
pub enum LfoOp {
    Tick(u32),
    SetFrequency(f32),
    SetPhase(f32),
    /// metamorphic probe for negative phases: set_phase(-(m + j/4096)) and set_phase(-(m + k + j/4096)) must agree
    NegPhasePair { m: u16, j: u16, k: u16 },
    Reset,
    /// read the five shapes in the order given by this permutation index (0..120), twice
    Read(u8),
    /// n times: set_frequency(a), tick, set_frequency(b), tick (many frequency changes in a row)
    FreqBurst { a: f32, b: f32, n: u16 },
    /// n phase jumps in a row with no tick in between (set_phase(a) / set_phase(b) alternating, or set_phase(a) / reset()),
    /// then all five shapes are read
    #[serde(alias = "JumpBurst")]
    PhaseBurst { a: f32, b: f32, n: u16, with_reset: bool },
}

#[derive(Debug, Clone, Serialize, Deserialize, PartialEq)]
pub struct LfoCase {
    pub fs: f32,
    pub ops: Vec<LfoOp>,
}

pub fn perm5(mut idx: u8) -> [usize; 5] {
    let mut items = vec![0usize, 1, 2, 3, 4];
    let mut out = [0usize; 5];
    idx %= 120;
    let mut n = idx as usize;
    let fact = [24usize, 6, 2, 1, 1];
    for i in 0..5 {
        let q = n / fact[i];
        n %= fact[i];
        out[i] = items.remove(q);
    }
    out
}

/// exact triangle in phase with the sine
pub fn tri_ref(acc: u32) -> f64 {
    let r = acc as f64 / TWO24F * 4.0;
    if r < 1.0 {
        r
    } else if r < 3.0 {
        2.0 - r
    } else {
        r - 4.0
    }
}

pub fn sine_ref(acc: u32) -> f64 {
    (2.0 * std::f64::consts::PI * acc as f64 / TWO24F).sin()
}

/// C10 oracle at the current phase of `lfo`. `order` = permutation index for the read order.
pub fn check_shapes(lfo: &Lfo, order: u8, step: usize, stats: &mut Stats) -> Result<(), Failure> {
    let acc = lfo.verif_phase_bits();
    if acc >= TWO24 {
        return Err(Failure::new(
            "C10.phase_in_cycle",
            step,
            format!("phase counter {} outside the 24-bit cycle", acc),
        ));
    }
    let before = *lfo;
    let p = perm5(order);
    let mut vals = [0f32; 5];
    for &i in p.iter() {
        vals[i] = lfo.get(SHAPES[i]);
    }
    // second read, reversed order: identical values
    for &i in p.iter().rev() {
        let v2 = lfo.get(SHAPES[i]);
        if v2.to_bits() != vals[i].to_bits() {
            return Err(Failure::new(
                "C10.read_stable",
                step,
                format!("shape {:?} read twice at phase {}: {} then {}", SHAPES[i], acc, vals[i], v2),
            ));
        }
    }
    if *lfo != before {
        return Err(Failure::new(
            "C10.read_pure",
            step,
            format!("reading the shapes changed the oscillator at phase {}", acc),
        ));
    }
    for i in 0..5 {
        let v = vals[i];
        if !(v >= -1.0 && v <= 1.0) {
            return Err(Failure::new(
                "C10.range",
                step,
                format!("{:?} = {} outside [-1,1] at phase counter {}", SHAPES[i], v, acc),
            ));
        }
    }
    let phase = acc as f64 / TWO24F;
    let up = 2.0 * phase - 1.0;
    if vals[2] as f64 != up {
        return Err(Failure::new(
            "C10.upsaw",
            step,
            format!("UpSaw = {} at phase counter {}, expected exactly {}", vals[2], acc, up),
        ));
    }
    if vals[3] as f64 != -up {
        return Err(Failure::new(
            "C10.downsaw",
            step,
            format!("DownSaw = {} at phase counter {}, expected exactly {}", vals[3], acc, -up),
        ));
    }
    let sq = if acc < TWO24 / 2 { 1.0 } else { -1.0 };
    if vals[4] as f64 != sq {
        return Err(Failure::new(
            "C10.square",
            step,
            format!("Square = {} at phase counter {}, expected {}", vals[4], acc, sq),
        ));
    }
    let tr = tri_ref(acc);
    if vals[1] as f64 != tr {
        return Err(Failure::new(
            "C10.triangle",
            step,
            format!("Triangle = {} at phase counter {}, expected exactly {}", vals[1], acc, tr),
        ));
    }
    let se = (vals[0] as f64 - sine_ref(acc)).abs();
    stats.ratio("sine_error/0.0125", se / SINE_TOL);
    if !(se <= SINE_TOL) {
        return Err(Failure::new(
            "C10.sine",
            step,
            format!(
                "Sine = {} at phase counter {}, sin(2 pi phase) = {}, error {} > {}",
                vals[0],
                acc,
                sine_ref(acc),
                se,
                SINE_TOL
            ),
        ));
    }
    Ok(())
}

/// is this phase one of the "interesting" ones (NT rule of C10)
pub fn c10_interesting_phase(acc: u32) -> bool {
    let cell = acc >> 14;
    if cell >= 1022 {
        return true;
    }
    for b in [0u32, TWO24 / 4, TWO24 / 2, 3 * (TWO24 / 4), TWO24] {
        let d = if acc > b { acc - b } else { b - acc };
        if d <= 2 {
            return true;
        }
    }
    false
}

/// C12 oracle for one tick: values before/after and the phase counters before/after.
pub fn check_step(
    acc0: u32,
    acc1: u32,
    nominal: Option<u32>,
    s0: f32,
    s1: f32,
    t0: f32,
    t1: f32,
    step: usize,
    stats: &mut Stats,
) -> Result<(), Failure> {
    // "the phase step" is the per-tick step the current frequency asks for (the steady advance observed since the last
    // frequency change); while that is not known yet the step actually taken is used
    let actual = (acc1.wrapping_sub(acc0)) & (TWO24 - 1);
    let delta = nominal.unwrap_or(actual);
    let circ = delta.min(TWO24 - delta) as f64 / TWO24F;
    let ds = (s1 as f64 - s0 as f64).abs();
    let dt = (t1 as f64 - t0 as f64).abs();
    let sine_bound = 2.0 * std::f64::consts::PI * 1.002 * circ + 2.0 * (f32::EPSILON as f64);
    let tri_bound = 4.0 * circ;
    if sine_bound > 0.0 {
        stats.ratio("sine_step/bound", ds / sine_bound);
    }
    if tri_bound > 0.0 {
        stats.ratio("triangle_step/bound", dt / tri_bound);
    }
    if !(ds <= sine_bound) {
        return Err(Failure::new(
            "C12.sine",
            step,
            format!(
                "sine moved {} -> {} (|d|={:e}) on the tick {} -> {} (per-tick phase step {} counts); bound {:e}",
                s0, s1, ds, acc0, acc1, delta, sine_bound
            ),
        ));
    }
    if !(dt <= tri_bound) {
        return Err(Failure::new(
            "C12.triangle",
            step,
            format!(
                "triangle moved {} -> {} (|d|={:e}) on the tick {} -> {} (per-tick phase step {} counts); bound {:e}",
                t0, t1, dt, acc0, acc1, delta, tri_bound
            ),
        ));
    }
    Ok(())
}

/// NT rule of C12: the pair straddles a table cell edge, is the wrap pair, or lies in the last two cells
pub fn c12_interesting_pair(acc0: u32, acc1: u32) -> bool {
    (acc0 >> 14) != (acc1 >> 14) || acc1 < acc0 || (acc0 >> 14) >= 1022
}

pub struct CaseInfo {
    pub nontrivial: bool,
}

/// Interpreter for LFO histories; `mask` selects which oracles are armed.
pub fn run_case(case: &LfoCase, mask: u32, tick_budget: u64, stats: &mut Stats) -> Result<CaseInfo, Failure> {
    let fs = case.fs;
    let mut lfo = Lfo::new(fs);
    // model for C11
    // requested frequency (Hz); None until the first set_frequency (the rate of a fresh oscillator is not specified,
    // only that it does not change by itself)
    let mut freq: Option<f64> = None;
    let mut inc_obs: Option<u32> = None; // observed per-tick advance since the last set_frequency
    let mut nominal_step: Option<u32> = None; // same, kept for the C12 oracle
    let mut ticks_total: u64 = 0;
    let mut n_setphase = 0u32;
    let mut n_setfreq = 0u32;
    let mut nt11 = false;
    let mut nt12 = false;
    let mut nt10 = false;
    // (phase counter, sine, triangle) as read after the most recent tick; dropped by set_phase / reset
    let mut last_read: Option<(u32, f32, f32)> = None;

    // FreqBurst is a macro: expand it into primitive ops first
    let mut expanded: Vec<LfoOp> = Vec::with_capacity(case.ops.len());
    for op in &case.ops {
        if let LfoOp::FreqBurst { a, b, n } = op {
            for _ in 0..*n {
                expanded.push(LfoOp::SetFrequency(*a));
                expanded.push(LfoOp::Tick(1));
                expanded.push(LfoOp::SetFrequency(*b));
                expanded.push(LfoOp::Tick(1));
            }
        } else if let LfoOp::PhaseBurst { a, b, n, with_reset } = op {
            for i in 0..*n {
                expanded.push(if i % 2 == 0 {
                    LfoOp::SetPhase(*a)
                } else if *with_reset {
                    LfoOp::Reset
                } else {
                    LfoOp::SetPhase(*b)
                });
            }
            expanded.push(LfoOp::Read(((*n as u32 * 7) % 120) as u8));
        } else {
            expanded.push(op.clone());
        }
    }
    for (step, op) in expanded.iter().enumerate() {
        match op {
            LfoOp::FreqBurst { .. } | LfoOp::PhaseBurst { .. } => {}
            LfoOp::Reset => {
                lfo.reset();
                if mask & C11 != 0 && lfo.verif_phase_bits() != 0 {
                    return Err(Failure::new(
                        "C11.reset",
                        step,
                        format!("phase counter {} after reset()", lfo.verif_phase_bits()),
                    ));
                }
            }
            LfoOp::SetPhase(p) => {
                lfo.set_phase(*p);
                n_setphase += 1;
                let acc = lfo.verif_phase_bits();
                if mask & C11 != 0 {
                    if acc >= TWO24 {
                        return Err(Failure::new(
                            "C11.set_phase_range",
                            step,
                            format!("set_phase({:e}) left the phase counter at {} (outside [0,1))", p, acc),
                        ));
                    }
                    if *p >= 0.0 {
                        let fr = (*p as f64).fract();
                        let ph = acc as f64 / TWO24F;
                        let mut d = (ph - fr).abs();
                        if d > 0.5 {
                            d = 1.0 - d;
                        }
                        let tol = 1.0 / 4_194_304.0;
                        stats.ratio("set_phase_error/2^-22", d / tol);
                        if !(d <= tol) {
                            return Err(Failure::new(
                                "C11.set_phase",
                                step,
                                format!("set_phase({:e}): phase {} but frac(p) = {} (distance {:e} > 2^-22)", p, ph, fr, d),
                            ));
                        }
                    }
                    if p.abs() >= 1.0 || *p < 0.0 {
                        nt11 = true;
                    }
                }
            }
            LfoOp::NegPhasePair { m, j, k } => {
                let m = (*m % 1000) as f32;
                let j = (*j % 4096) as f32 / 4096.0;
                let k = (1 + *k % 1000) as f32;
                let p1 = -(m + j);
                let p2 = -(m + k + j);
                let mut a = lfo;
                let mut b = lfo;
                a.set_phase(p1);
                b.set_phase(p2);
                lfo.set_phase(p1);
                n_setphase += 1;
                if mask & C11 != 0 {
                    nt11 = true;
                    let (x, y) = (a.verif_phase_bits(), b.verif_phase_bits());
                    if x >= TWO24 || y >= TWO24 {
                        return Err(Failure::new(
                            "C11.set_phase_range",
                            step,
                            format!("set_phase({}) -> {}, set_phase({}) -> {}: outside [0,1)", p1, x, p2, y),
                        ));
                    }
                    if x != y {
                        return Err(Failure::new(
                            "C11.neg_phase_mod1",
                            step,
                            format!(
                                "set_phase({}) -> counter {}, set_phase({}) -> counter {}: differ although p differs by an integer",
                                p1, x, p2, y
                            ),
                        ));
                    }
                }
            }
            LfoOp::SetFrequency(f) => {
                let before = lfo.verif_phase_bits();
                lfo.set_frequency(*f);
                n_setfreq += 1;
                freq = Some(*f as f64);
                inc_obs = None;
                nominal_step = None;
                if mask & C11 != 0 && lfo.verif_phase_bits() != before {
                    return Err(Failure::new(
                        "C11.freq_change_jump",
                        step,
                        format!(
                            "set_frequency({}) moved the phase counter {} -> {}",
                            f,
                            before,
                            lfo.verif_phase_bits()
                        ),
                    ));
                }
            }
            LfoOp::Read(order) => {
                if mask & C10 != 0 {
                    check_shapes(&lfo, *order, step, stats)?;
                    stats.count("phases_checked", 1);
                    if c10_interesting_phase(lfo.verif_phase_bits()) {
                        stats.count("phases_interesting", 1);
                    }
                }
            }
            LfoOp::Tick(n) => {
                let mut n = *n as u64;
                if ticks_total + n > tick_budget {
                    n = tick_budget.saturating_sub(ticks_total);
                    stats.count("cases_truncated_by_tick_budget", 1);
                }
                ticks_total += n;
                for _ in 0..n {
                    let acc0 = lfo.verif_phase_bits();
                    let (s0, t0) = if mask & C12 != 0 {
                        (lfo.get(Waveshape::Sine), lfo.get(Waveshape::Triangle))
                    } else {
                        (0.0, 0.0)
                    };
                    lfo.tick();
                    let acc1 = lfo.verif_phase_bits();
                    if mask & C10 != 0 {
                        // light check on every tick (full read order check happens at Read ops)
                        check_shapes(&lfo, 0, step, stats)?;
                        stats.count("phases_checked", 1);
                        if c10_interesting_phase(acc1) {
                            stats.count("phases_interesting", 1);
                        }
                    }
                    if mask & C12 != 0 {
                        let (s1, t1) = (lfo.get(Waveshape::Sine), lfo.get(Waveshape::Triangle));
                        let d_now = acc1.wrapping_sub(acc0) & (TWO24 - 1);
                        let nominal = *nominal_step.get_or_insert(d_now);
                        check_step(acc0, acc1, Some(nominal), s0, s1, t0, t1, step, stats)?;
                        // what a caller sees "between consecutive ticks" is the value read after the previous tick, which
                        // must agree with this one even if set_frequency was called in between (it does not move the phase)
                        if let Some((pa, ps, pt)) = last_read {
                            if pa == acc0 && (ps.to_bits() != s0.to_bits() || pt.to_bits() != t0.to_bits()) {
                                stats.count("label.pair_across_frequency_change_reread_differs", 1);
                                check_step(acc0, acc1, Some(nominal), ps, s1, pt, t1, step, stats)?;
                            }
                        }
                        last_read = Some((acc1, s1, t1));
                        stats.count("pairs_checked", 1);
                        if c12_interesting_pair(acc0, acc1) {
                            stats.count("pairs_interesting", 1);
                            nt12 = true;
                        }
                    }
                    if mask & C11 != 0 {
                        if acc1 >= TWO24 {
                            return Err(Failure::new(
                                "C11.phase_in_cycle",
                                step,
                                format!("phase counter {} after a tick is outside the cycle", acc1),
                            ));
                        }
                        let delta = acc1.wrapping_sub(acc0) & (TWO24 - 1);
                        match inc_obs {
                            Some(d) => {
                                if d != delta {
                                    return Err(Failure::new(
                                        "C11.drift",
                                        step,
                                        format!(
                                            "per-tick advance changed from {} to {} counts without a frequency change (phase {} -> {})",
                                            d, delta, acc0, acc1
                                        ),
                                    ));
                                }
                            }
                            None if freq.is_none() => {
                                inc_obs = Some(delta);
                            }
                            None => {
                                // first tick after set_frequency: must be within rounding + one count of x
                                let freq = freq.unwrap();
                                let x = TWO24F * freq / fs as f64;
                                let lo = x * (1.0 - 1.0 / 8_388_608.0) - 1.0;
                                let hi = x * (1.0 + 1.0 / 8_388_608.0);
                                let d0 = delta as f64;
                                let ok = (d0 >= lo && d0 <= hi) || (d0 + TWO24F >= lo && d0 + TWO24F <= hi);
                                if x > 0.0 {
                                    // head-room: shortfall relative to the allowance x*2^-23 + 1
                                    let dd = if (d0 - x).abs() < (d0 + TWO24F - x).abs() { d0 } else { d0 + TWO24F };
                                    let short = x - dd;
                                    let allow = x / 8_388_608.0 + 1.0;
                                    stats.ratio("advance_shortfall/allowed", short / allow);
                                    let over = dd - x;
                                    if over > 0.0 {
                                        stats.ratio("advance_excess/allowed", over / (x / 8_388_608.0).max(1e-300));
                                    }
                                }
                                if !ok {
                                    return Err(Failure::new(
                                        "C11.advance",
                                        step,
                                        format!(
                                            "f = {} Hz at fs = {}: one tick advanced {} counts, expected within [{}, {}] (mod 2^24)",
                                            freq, fs, delta, lo, hi
                                        ),
                                    ));
                                }
                                inc_obs = Some(delta);
                                if delta <= 1 || delta >= TWO24 - 1 {
                                    nt11 = true;
                                }
                            }
                        }
                    }
                }
            }
        }
    }
    if n_setphase >= 1 || n_setfreq >= 2 {
        nt10 = true;
    }
    if ticks_total >= 10_000 {
        nt11 = true;
    }
    stats.count("ticks", ticks_total);
    let nontrivial = (mask & C10 != 0 && nt10) || (mask & C11 != 0 && nt11) || (mask & C12 != 0 && nt12);
    Ok(CaseInfo { nontrivial })
}

/// Put a fresh oscillator (fs = 131072) at counter value `acc` using only the public API: from reset, one tick
/// with f = acc/128 advances by exactly acc counts. Returns None if the implementation does not land there
/// (then the caller reports reduced coverage, not a violation).
pub fn lfo_at(acc: u32) -> Option<Lfo> {
    let mut l = Lfo::new(131072.0);
    l.reset();
    l.set_frequency(acc as f32 / 128.0);
    l.tick();
    if l.verif_phase_bits() == acc {
        Some(l)
    } else {
        None
    }
}

/// C10 complete generator over the counter range [lo, hi) with the given stride: every visited phase is checked.
/// Returns the number of phases actually checked.
pub fn sweep_c10(lo: u32, hi: u32, stride: u32, stats: &mut Stats) -> Result<u64, Failure> {
    let mut n = 0u64;
    if stride == 1 {
        let mut l = match lfo_at(lo) {
            Some(l) => l,
            None => {
                stats.note(format!("could not position the oscillator at counter {}", lo));
                return Ok(0);
            }
        };
        l.set_frequency(1.0 / 128.0);
        let mut acc = lo;
        while acc < hi {
            if l.verif_phase_bits() != acc {
                stats.note(format!("walk with increment 1 left the expected counter at {}", acc));
                return Ok(n);
            }
            check_shapes(&l, (acc % 120) as u8, acc as usize, stats)?;
            n += 1;
            if c10_interesting_phase(acc) {
                stats.count("phases_interesting", 1);
            }
            l.tick();
            acc += 1;
        }
        if hi == TWO24 {
            // the tick out of the last counter value must land on the first one again
            if l.verif_phase_bits() != 0 {
                let got = l.verif_phase_bits();
                if got >= TWO24 {
                    check_shapes(&l, 0, got as usize, stats)?;
                }
                stats.note(format!("the tick out of counter 2^24-1 landed on {} instead of 0", got));
            } else {
                check_shapes(&l, 7, 0, stats)?;
            }
        }
    } else {
        let mut acc = lo;
        while acc < hi {
            if let Some(l) = lfo_at(acc) {
                check_shapes(&l, (acc % 120) as u8, acc as usize, stats)?;
                n += 1;
                if c10_interesting_phase(acc) {
                    stats.count("phases_interesting", 1);
                }
            } else {
                stats.count("phases_unreachable_by_one_tick", 1);
            }
            acc = match acc.checked_add(stride) {
                Some(a) => a,
                None => break,
            };
        }
    }
    stats.count("phases_checked", n);
    Ok(n)
}

/// C12 complete generator: walk `count` ticks with per-tick increment `inc` starting at counter `start`
/// (wraps around the cycle end). Every adjacent pair is checked.
pub fn sweep_c12(start: u32, inc: u32, count: u64, stats: &mut Stats) -> Result<u64, Failure> {
    let mut l = match lfo_at(start) {
        Some(l) => l,
        None => {
            stats.note(format!("could not position the oscillator at counter {}", start));
            return Ok(0);
        }
    };
    l.set_frequency(inc as f32 / 128.0);
    let mut n = 0u64;
    let mut nominal_step: Option<u32> = None;
    let mut acc0 = l.verif_phase_bits();
    let mut s0 = l.get(Waveshape::Sine);
    let mut t0 = l.get(Waveshape::Triangle);
    for _ in 0..count {
        l.tick();
        let acc1 = l.verif_phase_bits();
        let s1 = l.get(Waveshape::Sine);
        let t1 = l.get(Waveshape::Triangle);
        // nominal per-tick step = the step of the first tick of this walk (how the frequency maps to a step is C11's business)
        let nominal = *nominal_step.get_or_insert(acc1.wrapping_sub(acc0) & (TWO24 - 1));
        check_step(acc0, acc1, Some(nominal), s0, s1, t0, t1, acc0 as usize, stats)?;
        n += 1;
        if c12_interesting_pair(acc0, acc1) {
            stats.count("pairs_interesting", 1);
        }
        if acc1 < acc0 {
            stats.count("wrap_pairs", 1);
        }
        acc0 = acc1;
        s0 = s1;
        t0 = t1;
    }
    stats.count("pairs_checked", n);
    Ok(n)
}
