//! C17: no public operation panics, overflows or hangs for any in-range argument (overflow checks and debug
//! assertions are ON in the harness profile); every envelope reaches sustain / rest in finitely many ticks.

use crate::common::*;
use crate::ribbon;
use serde::{Deserialize, Serialize};
use synth_utils::adsr::{Adsr, Input};
use synth_utils::glide_processor::GlideProcessor;
use synth_utils::lfo::{Lfo, Waveshape};
use synth_utils::mono_midi_receiver::{MonoMidiReceiver, NotePriority, RetriggerMode};
use synth_utils::quantizer::{Note, Quantizer};

#[derive(Debug, Clone, Serialize, Deserialize, PartialEq)]
pub enum AdsrCall {
    GateOn,
    GateOff,
    Tick(u16),
    Attack(f32),
    Decay(f32),
    Release(f32),
    Sustain(f32),
    Value,
}

#[derive(Debug, Clone, Serialize, Deserialize, PartialEq)]
pub enum LfoCall {
    Tick(u16),
    /// frequency as a fraction of the sample rate in [0,1] (1.0 = exactly fs)
    FreqFrac(f32),
    /// frequency given directly (generator keeps it in [0, fs])
    Freq(f32),
    Phase(f32),
    Reset,
    Get(u8),
}

#[derive(Debug, Clone, Serialize, Deserialize, PartialEq)]
pub enum GlideCall {
    SetTime(f32),
    Process(f32),
    ProcessN(f32, u16),
    /// set_time(k / fs evaluated in f32, moved by `ulps` f32 steps): times of exactly k samples (k = 2 is the boundary
    /// of the fastest setting)
    SetTimeSamples { k: u8, ulps: i8 },
}

#[derive(Debug, Clone, Serialize, Deserialize, PartialEq)]
pub enum QuantCall {
    Convert(f32),
    Allow(Vec<u8>),
    Forbid(Vec<u8>),
    IsAllowed(u8),
}

#[derive(Debug, Clone, Serialize, Deserialize, PartialEq)]
pub enum RibbonCall {
    Poll(f32),
    PollN(f32, u16),
    /// n samples exactly `ulps` f32 steps away from the in-range boundary 1 - dropper/(dropper+softpot)
    PollNearBoundary(i8, u16),
    Value,
    Pressing,
    JustPressed,
    JustReleased,
}

#[derive(Debug, Clone, Serialize, Deserialize, PartialEq)]
pub enum MidiCall {
    Bytes(Vec<u8>),
    Priority(u8),
    Retrigger(bool),
    Getters,
    Edges,
}

#[derive(Debug, Clone, Serialize, Deserialize, PartialEq)]
pub enum ApiCase {
    Adsr { fs: f32, calls: Vec<AdsrCall> },
    Lfo { fs: f32, calls: Vec<LfoCall> },
    Glide { fs: f32, calls: Vec<GlideCall> },
    Quant { calls: Vec<QuantCall> },
    Ribbon { rate_idx: u16, softpot_idx: u8, dropper_frac: f32, pullup_factor: f32, calls: Vec<RibbonCall> },
    Midi { channel: u8, calls: Vec<MidiCall> },
    Liveness { fs: f32, att: f32, dec: f32, rel: f32, sus: f32 },
}

pub fn extreme(x: f32) -> bool {
    !x.is_finite() || x == 0.0 || (x != 0.0 && x.abs() < f32::MIN_POSITIVE) || x.abs() >= 1e9
}

pub struct CaseInfo {
    pub nontrivial: bool,
}

fn guard<R>(module: &str, idx: usize, what: String, f: impl FnOnce() -> R) -> Result<R, Failure> {
    match catch(f) {
        Ok(r) => Ok(r),
        Err(msg) => Err(Failure::new(
            &format!("C17.panic.{}", module),
            idx,
            format!("{} call #{} {} panicked: {}", module, idx, what, msg),
        )),
    }
}

pub fn run_case(case: &ApiCase, stats: &mut Stats) -> Result<CaseInfo, Failure> {
    let mut ext = 0u32;
    let mut ncalls = 0usize;
    match case {
        ApiCase::Adsr { fs, calls } => {
            let mut a = guard("adsr", 0, format!("Adsr::new({})", fs), || Adsr::new(*fs))?;
            if *fs == 100.0 || *fs == 192_000.0 {
                ext += 1;
            }
            for (i, c) in calls.iter().enumerate() {
                ncalls += 1;
                let what = format!("{:?}", c);
                match c {
                    AdsrCall::GateOn => guard("adsr", i, what, || a.gate_on())?,
                    AdsrCall::GateOff => guard("adsr", i, what, || a.gate_off())?,
                    AdsrCall::Tick(n) => guard("adsr", i, what, || {
                        for _ in 0..*n {
                            a.tick()
                        }
                    })?,
                    AdsrCall::Attack(t) => {
                        ext += extreme(*t) as u32;
                        guard("adsr", i, what, || a.set_input(Input::Attack((*t).into())))?
                    }
                    AdsrCall::Decay(t) => {
                        ext += extreme(*t) as u32;
                        guard("adsr", i, what, || a.set_input(Input::Decay((*t).into())))?
                    }
                    AdsrCall::Release(t) => {
                        ext += extreme(*t) as u32;
                        guard("adsr", i, what, || a.set_input(Input::Release((*t).into())))?
                    }
                    AdsrCall::Sustain(t) => {
                        ext += extreme(*t) as u32;
                        guard("adsr", i, what, || a.set_input(Input::Sustain((*t).into())))?
                    }
                    AdsrCall::Value => {
                        guard("adsr", i, what, || a.value())?;
                    }
                }
            }
            stats.count("module.adsr", 1);
        }
        ApiCase::Lfo { fs, calls } => {
            let mut l = guard("lfo", 0, format!("Lfo::new({})", fs), || Lfo::new(*fs))?;
            for (i, c) in calls.iter().enumerate() {
                ncalls += 1;
                let what = format!("{:?}", c);
                match c {
                    LfoCall::Tick(n) => guard("lfo", i, what, || {
                        for _ in 0..*n {
                            l.tick()
                        }
                    })?,
                    LfoCall::FreqFrac(u) => {
                        let f = if *u >= 1.0 { *fs } else { (u.max(0.0) * *fs).min(*fs) };
                        ext += (f == *fs || f == 0.0) as u32;
                        guard("lfo", i, format!("set_frequency({})", f), || l.set_frequency(f))?
                    }
                    LfoCall::Freq(f) => {
                        let f = f.max(0.0).min(*fs);
                        ext += extreme(f) as u32;
                        guard("lfo", i, format!("set_frequency({})", f), || l.set_frequency(f))?
                    }
                    LfoCall::Phase(p) => {
                        ext += extreme(*p) as u32;
                        guard("lfo", i, what, || l.set_phase(*p))?
                    }
                    LfoCall::Reset => guard("lfo", i, what, || l.reset())?,
                    LfoCall::Get(k) => {
                        let ws = [Waveshape::Sine, Waveshape::Triangle, Waveshape::UpSaw, Waveshape::DownSaw, Waveshape::Square][(*k % 5) as usize];
                        guard("lfo", i, what, || l.get(ws))?;
                    }
                }
            }
            stats.count("module.lfo", 1);
        }
        ApiCase::Glide { fs, calls } => {
            let mut g = guard("glide", 0, format!("GlideProcessor::new({})", fs), || GlideProcessor::new(*fs))?;
            for (i, c) in calls.iter().enumerate() {
                ncalls += 1;
                let what = format!("{:?}", c);
                match c {
                    GlideCall::SetTime(t) => {
                        ext += extreme(*t) as u32;
                        guard("glide", i, what, || g.set_time(*t))?
                    }
                    GlideCall::SetTimeSamples { k, ulps } => {
                        let t0 = *k as f32 / *fs;
                        let t = f32::from_bits((t0.to_bits() as i64 + (*ulps).clamp(-3, 3) as i64).max(0) as u32);
                        ext += 1;
                        guard("glide", i, format!("set_time({:e}) = {} samples {:+} ulps", t, k, ulps), || g.set_time(t))?
                    }
                    GlideCall::Process(x) => {
                        guard("glide", i, what, || g.process(*x))?;
                    }
                    GlideCall::ProcessN(x, n) => {
                        guard("glide", i, what, || {
                            for _ in 0..*n {
                                g.process(*x);
                            }
                        })?;
                    }
                }
            }
            stats.count("module.glide", 1);
        }
        ApiCase::Quant { calls } => {
            let mut q = guard("quantizer", 0, "Quantizer::new()".into(), Quantizer::new)?;
            for (i, c) in calls.iter().enumerate() {
                ncalls += 1;
                let what = format!("{:?}", c);
                match c {
                    QuantCall::Convert(v) => {
                        ext += extreme(*v) as u32;
                        guard("quantizer", i, what, || q.convert(*v))?;
                    }
                    QuantCall::Allow(l) => {
                        let ns: Vec<Note> = l.iter().map(|n| Note::from(*n)).collect();
                        guard("quantizer", i, what, || q.allow(&ns))?
                    }
                    QuantCall::Forbid(l) => {
                        let ns: Vec<Note> = l.iter().map(|n| Note::from(*n)).collect();
                        guard("quantizer", i, what, || q.forbid(&ns))?
                    }
                    QuantCall::IsAllowed(n) => {
                        guard("quantizer", i, what, || q.is_allowed(Note::from(*n)))?;
                    }
                }
            }
            stats.count("module.quantizer", 1);
        }
        ApiCase::Ribbon { rate_idx, softpot_idx, dropper_frac, pullup_factor, calls } => {
            let rc = ribbon::RibbonCase { rate_idx: *rate_idx, softpot_idx: *softpot_idx, dropper_frac: *dropper_frac, pullup_factor: *pullup_factor, segs: vec![], edge_ulps: None };
            let cfg = ribbon::config(&rc);
            let (mut r, _) = guard("ribbon", 0, format!("RibbonController::new(fs = {})", cfg.fs), || ribbon::make(*rate_idx as usize, cfg.sp, cfg.dr, cfg.pu))?;
            for (i, c) in calls.iter().enumerate() {
                ncalls += 1;
                let what = format!("{:?}", c);
                match c {
                    RibbonCall::Poll(v) => {
                        let v = v.clamp(0.0, 1.0);
                        ext += (v == 0.0 || v == 1.0) as u32;
                        guard("ribbon", i, what, || r.poll(v))?
                    }
                    RibbonCall::PollNearBoundary(ulps, n) => {
                        let boundary = 1.0f32 - (cfg.dr / (cfg.dr + cfg.sp));
                        let v = f32::from_bits((boundary.to_bits() as i64 + *ulps as i64) as u32).clamp(0.0, 1.0);
                        ext += 1;
                        guard("ribbon", i, format!("poll({:e}) x {} ({} ulps from the in-range boundary)", v, n, ulps), || {
                            for _ in 0..*n {
                                r.poll(v)
                            }
                        })?
                    }
                    RibbonCall::PollN(v, n) => {
                        let v = v.clamp(0.0, 1.0);
                        guard("ribbon", i, what, || {
                            for _ in 0..*n {
                                r.poll(v)
                            }
                        })?
                    }
                    RibbonCall::Value => {
                        guard("ribbon", i, what, || r.value())?;
                    }
                    RibbonCall::Pressing => {
                        guard("ribbon", i, what, || r.pressing())?;
                    }
                    RibbonCall::JustPressed => {
                        guard("ribbon", i, what, || r.just_pressed())?;
                    }
                    RibbonCall::JustReleased => {
                        guard("ribbon", i, what, || r.just_released())?;
                    }
                }
            }
            stats.count("module.ribbon", 1);
        }
        ApiCase::Midi { channel, calls } => {
            let mut m = guard("midi", 0, format!("MonoMidiReceiver::new({})", channel), || MonoMidiReceiver::new(*channel))?;
            for (i, c) in calls.iter().enumerate() {
                ncalls += 1;
                let what = format!("{:02X?}", c);
                match c {
                    MidiCall::Bytes(bs) => {
                        ext += 1;
                        guard("midi", i, what, || {
                            for b in bs {
                                m.parse(*b)
                            }
                        })?
                    }
                    MidiCall::Priority(p) => guard("midi", i, what, || {
                        m.set_note_priority(match p % 3 {
                            0 => NotePriority::Last,
                            1 => NotePriority::High,
                            _ => NotePriority::Low,
                        })
                    })?,
                    MidiCall::Retrigger(r) => guard("midi", i, what, || m.set_retrigger_mode(if *r { RetriggerMode::AllowRetrigger } else { RetriggerMode::NoRetrigger }))?,
                    MidiCall::Getters => {
                        guard("midi", i, what, || crate::midi::observe(&m))?;
                    }
                    MidiCall::Edges => {
                        guard("midi", i, what, || (m.rising_gate(), m.falling_gate()))?;
                    }
                }
            }
            stats.count("module.midi", 1);
        }
        ApiCase::Liveness { fs, att, dec, rel, sus } => {
            let r = catch(|| crate::adsr::liveness(*fs, *att, *dec, *rel, *sus, 0));
            match r {
                Ok(Ok(t)) => {
                    stats.count("liveness_ticks", t);
                }
                Ok(Err(f)) => return Err(f),
                Err(msg) => return Err(Failure::new("C17.panic.adsr", 0, format!("envelope run panicked: {}", msg))),
            }
            stats.count("module.adsr_liveness", 1);
            let sub = crate::adsr::model_time(*att) * *fs < 1.0 || crate::adsr::model_time(*dec) * *fs < 1.0 || crate::adsr::model_time(*rel) * *fs < 1.0;
            if sub {
                stats.count("label.phase_shorter_than_a_sample", 1);
            }
            return Ok(CaseInfo { nontrivial: sub || extreme(*att) || extreme(*dec) || extreme(*rel) || extreme(*sus) });
        }
    }
    stats.count("calls", ncalls as u64);
    Ok(CaseInfo { nontrivial: ext >= 1 && ncalls >= 20 })
}
