//! Shared infrastructure: statistics gathered by every check, the failure record, small float helpers.

use serde::{Deserialize, Serialize};
use serde_json::Value;
use std::collections::{BTreeMap, HashSet};
use std::hash::{Hash, Hasher};

/// What one interpreter run found wrong: which clause of the property (`rule`), at which step, and the numbers.
#[derive(Debug, Clone, Serialize, Deserialize)]
pub struct Failure {
    /// stable name of the violated clause, e.g. "C01.range"
    pub rule: String,
    /// index of the op / step at which the oracle fired
    pub step: usize,
    /// human readable details (observed vs expected)
    pub detail: String,
    /// stable signature used to match `known:` lines of known_findings.txt
    pub signature: String,
    /// optional structured data identifying the failing input inside a larger sweep
    #[serde(default)]
    pub data: Value,
}

impl Failure {
    pub fn new(rule: &str, step: usize, detail: String) -> Self {
        Self {
            rule: rule.to_string(),
            step,
            detail,
            signature: rule.to_string(),
            data: Value::Null,
        }
    }
    pub fn with(mut self, v: Value) -> Self {
        self.data = v;
        self
    }
    pub fn sig(mut self, s: &str) -> Self {
        self.signature = s.to_string();
        self
    }
}

/// Counters filled by the interpreters; merged over workers and written into the evidence file.
#[derive(Debug, Default, Clone)]
pub struct Stats {
    /// number of generated cases executed
    pub cases: u64,
    /// free counters (ticks, conversions, bytes, labels of case classes ...)
    pub counters: BTreeMap<String, u64>,
    /// for every numeric bound: the largest observed/allowed ratio (head-room: must stay <= 1)
    pub headroom: BTreeMap<String, f64>,
    /// hashes of the distinct non-trivial cases
    pub nontrivial: HashSet<u64>,
    /// a few cases written out
    pub samples: Vec<Value>,
    /// notes about coverage limits detected at run time (e.g. an exhaustive walk that could not be completed)
    pub notes: Vec<String>,
}

impl Stats {
    pub fn count(&mut self, key: &str, n: u64) {
        if n == 0 {
            return;
        }
        *self.counters.entry(key.to_string()).or_insert(0) += n;
    }
    pub fn get(&self, key: &str) -> u64 {
        self.counters.get(key).copied().unwrap_or(0)
    }
    pub fn ratio(&mut self, key: &str, r: f64) {
        if !r.is_finite() {
            return;
        }
        let e = self.headroom.entry(key.to_string()).or_insert(0.0);
        if r > *e {
            *e = r;
        }
    }
    pub fn nontrivial_hash(&mut self, h: u64) {
        self.nontrivial.insert(h);
    }
    pub fn sample(&mut self, v: Value, max: usize) {
        if self.samples.len() < max {
            self.samples.push(v);
        }
    }
    pub fn note(&mut self, s: String) {
        if self.notes.len() < 20 && !self.notes.contains(&s) {
            self.notes.push(s);
        }
    }
    pub fn merge(&mut self, o: Stats) {
        self.cases += o.cases;
        for (k, v) in o.counters {
            *self.counters.entry(k).or_insert(0) += v;
        }
        for (k, v) in o.headroom {
            let e = self.headroom.entry(k).or_insert(0.0);
            if v > *e {
                *e = v;
            }
        }
        self.nontrivial.extend(o.nontrivial);
        for s in o.samples {
            if self.samples.len() < 6 {
                self.samples.push(s);
            }
        }
        for n in o.notes {
            self.note(n);
        }
    }
}

/// FNV-1a over the Debug rendering: stable across runs and platforms (no RandomState).
pub fn stable_hash<T: std::fmt::Debug>(t: &T) -> u64 {
    let s = format!("{:?}", t);
    fnv(s.as_bytes())
}

pub fn fnv(bytes: &[u8]) -> u64 {
    let mut h = Fnv(0xcbf29ce484222325);
    bytes.hash(&mut h);
    h.finish()
}

struct Fnv(u64);
impl Hasher for Fnv {
    fn finish(&self) -> u64 {
        self.0
    }
    fn write(&mut self, bytes: &[u8]) {
        for b in bytes {
            self.0 ^= *b as u64;
            self.0 = self.0.wrapping_mul(0x100000001b3);
        }
    }
}

/// size of one unit in the last place of the f32 `x` (for x = 0 or subnormal: the smallest subnormal spacing)
pub fn ulp32(x: f32) -> f64 {
    let a = x.abs();
    if !a.is_finite() {
        return f64::INFINITY;
    }
    let bits = a.to_bits();
    let next = f32::from_bits(bits + 1);
    if next.is_finite() {
        next as f64 - a as f64
    } else {
        a as f64 - f32::from_bits(bits - 1) as f64
    }
}

/// SplitMix64 step – used ONLY to derive per-worker seeds from VERIF_SEED and to pick fixed pseudo-random grids in
/// the complete generators (a pure function of the seed); all case randomness comes from proptest.
pub fn splitmix(x: u64) -> u64 {
    let mut z = x.wrapping_add(0x9E3779B97F4A7C15);
    z = (z ^ (z >> 30)).wrapping_mul(0xBF58476D1CE4E5B9);
    z = (z ^ (z >> 27)).wrapping_mul(0x94D049BB133111EB);
    z ^ (z >> 31)
}

/// deterministic stream derived from a seed (SplitMix64), for grid perturbation in complete generators
pub struct Mix(pub u64);
impl Mix {
    pub fn next(&mut self) -> u64 {
        self.0 = self.0.wrapping_add(0x9E3779B97F4A7C15);
        let mut z = self.0;
        z = (z ^ (z >> 30)).wrapping_mul(0xBF58476D1CE4E5B9);
        z = (z ^ (z >> 27)).wrapping_mul(0x94D049BB133111EB);
        z ^ (z >> 31)
    }
    /// uniform in [0,1)
    pub fn unit(&mut self) -> f64 {
        (self.next() >> 11) as f64 / (1u64 << 53) as f64
    }
    pub fn below(&mut self, n: u64) -> u64 {
        ((self.next() >> 32) * n) >> 32
    }
}

/// Run `f`, turning a panic into Err(message). The default panic hook is silenced by the harness while checks run.
pub fn catch<R>(f: impl FnOnce() -> R) -> Result<R, String> {
    match std::panic::catch_unwind(std::panic::AssertUnwindSafe(f)) {
        Ok(r) => Ok(r),
        Err(e) => {
            let msg = if let Some(s) = e.downcast_ref::<&str>() {
                s.to_string()
            } else if let Some(s) = e.downcast_ref::<String>() {
                s.clone()
            } else {
                "non-string panic payload".to_string()
            };
            Err(msg)
        }
    }
}
