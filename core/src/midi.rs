//! MIDI receiver: C04 (gate/note/velocity track held keys), C05 (edge latches), C06 (byte-stream framing),
//! C18 (controller / pitch-bend routing and scaling).
//!
//! * `Decoder` is an independent MIDI 1.0 byte-stream decoder written from the specification.
//! * `Model` is the reference receiver (held-note list, priorities, latches, controller map).
//! * C04/C05/C18 compare the real receiver with Decoder+Model on structured, well-formed streams.
//! * C06 is a *framing differential*: the real receiver fed the raw byte stream must equal, after every byte, a
//!   second real receiver fed the canonical re-encoding (explicit status, listened channel, supported types only)
//!   of what `Decoder` says the stream contains - so C06 does not depend on the note/controller semantics.

use crate::common::*;
use serde::{Deserialize, Serialize};
use synth_utils::mono_midi_receiver::{MonoMidiReceiver, NotePriority, RetriggerMode};

pub const C04: u32 = 1;
pub const C05: u32 = 2;
pub const C18: u32 = 4;

// ------------------------------------------------------------------------------------------------ decoder

#[derive(Debug, Clone, Copy, PartialEq, Eq)]
pub struct Msg {
    pub status: u8,
    pub d1: u8,
    pub d2: u8,
}

#[derive(Debug, Clone, Default)]
pub struct Decoder {
    running: Option<u8>,
    partial: Option<u8>,
    // statistics about what the stream contained (for non-triviality rules)
    pub used_running_status: bool,
    pub realtime_inside_message: bool,
    pub aborted_partial: bool,
    pub saw_sysex: bool,
    pub saw_system_common: bool,
    fresh_status: bool,
}

fn data_len(status: u8) -> usize {
    match status & 0xF0 {
        0xC0 | 0xD0 => 1,
        _ => 2,
    }
}

impl Decoder {
    pub fn feed(&mut self, b: u8) -> Option<Msg> {
        if b >= 0xF8 {
            // system real-time: transparent
            if self.partial.is_some() || (self.fresh_status && self.running.is_some()) {
                self.realtime_inside_message = true;
            }
            return None;
        }
        if b >= 0xF0 {
            // system common / exclusive: cancels running status, aborts a partial message
            if self.partial.is_some() || (self.fresh_status && self.running.is_some()) {
                self.aborted_partial = true;
            }
            if b == 0xF0 {
                self.saw_sysex = true;
            } else {
                self.saw_system_common = true;
            }
            self.running = None;
            self.partial = None;
            self.fresh_status = false;
            return None;
        }
        if b >= 0x80 {
            if self.partial.is_some() || (self.fresh_status && self.running.is_some()) {
                self.aborted_partial = true;
            }
            self.running = Some(b);
            self.partial = None;
            self.fresh_status = true;
            return None;
        }
        // data byte
        let status = self.running?;
        let was_fresh = self.fresh_status;
        if data_len(status) == 1 {
            self.fresh_status = false;
            if !was_fresh {
                self.used_running_status = true;
            }
            return Some(Msg { status, d1: b, d2: 0 });
        }
        match self.partial.take() {
            None => {
                self.partial = Some(b);
                if !was_fresh {
                    self.used_running_status = true;
                }
                self.fresh_status = false;
                None
            }
            Some(d1) => Some(Msg { status, d1, d2: b }),
        }
    }
}

// ------------------------------------------------------------------------------------------------ model

#[derive(Debug, Clone, Copy, PartialEq, Eq, Serialize, Deserialize)]
pub enum Prio {
    Last,
    High,
    Low,
}

/// all pure getters of the receiver, floats as bit patterns
#[derive(Debug, Clone, Copy, PartialEq)]
pub struct Obs {
    pub gate: bool,
    pub note: u8,
    pub velocity: u32,
    pub pitch_bend: u32,
    pub mod_wheel: u32,
    pub volume: u32,
    pub cutoff: u32,
    pub resonance: u32,
    pub porta_time: u32,
    pub porta_on: bool,
    pub sustain_on: bool,
}

pub fn observe(r: &MonoMidiReceiver) -> Obs {
    Obs {
        gate: r.gate(),
        note: r.note_num(),
        velocity: r.velocity().to_bits(),
        pitch_bend: r.pitch_bend().to_bits(),
        mod_wheel: r.mod_wheel().to_bits(),
        volume: r.volume().to_bits(),
        cutoff: r.vcf_cutoff().to_bits(),
        resonance: r.vcf_resonance().to_bits(),
        porta_time: r.portamento_time().to_bits(),
        porta_on: r.portamento_enabled(),
        sustain_on: r.sustain_enabled(),
    }
}

pub fn obs_text(o: &Obs) -> String {
    format!(
        "gate={} note={} vel={} bend={} mod={} vol={} cutoff={} res={} ptime={} porta={} sustain={}",
        o.gate,
        o.note,
        f32::from_bits(o.velocity),
        f32::from_bits(o.pitch_bend),
        f32::from_bits(o.mod_wheel),
        f32::from_bits(o.volume),
        f32::from_bits(o.cutoff),
        f32::from_bits(o.resonance),
        f32::from_bits(o.porta_time),
        o.porta_on,
        o.sustain_on
    )
}

pub fn bend_ref(v14: u16) -> f32 {
    let v = v14 as i32 - 8192;
    let f = if v > 0 { v as f32 / 8191.0 } else { v as f32 / 8192.0 };
    f.clamp(-1.0, 1.0)
}

#[derive(Debug, Clone)]
pub struct Model {
    pub channel: u8,
    pub held: Vec<u8>,
    pub gate: bool,
    pub note: u8,
    pub velocity: f32,
    pub pitch_bend: f32,
    pub mod_wheel: f32,
    pub volume: f32,
    pub cutoff: f32,
    pub resonance: f32,
    pub porta_time: f32,
    pub porta_on: bool,
    pub sustain_on: bool,
    pub rising: bool,
    pub falling: bool,
    pub prio: Prio,
    pub retrigger: bool,
    /// statement ambiguity: does CC 123 / CC 121 with a non-zero value act? learnt from the first decisive occurrence
    pub ano_nonzero_acts: Option<bool>,
    pub reset_nonzero_acts: Option<bool>,
    pub overflowed: bool,
    // labels
    pub lbl_out_of_order_release: bool,
    pub lbl_duplicate_on: bool,
    pub lbl_stray_off: bool,
    pub lbl_ano_multi: bool,
    pub lbl_gate_falls: u32,
    pub lbl_ano_while_high: bool,
    pub lbl_stray_off_while_low: bool,
    pub lbl_retrigger_on_while_high: bool,
}

pub enum Effect {
    None,
    /// CC123 / CC121 with a non-zero value arrived and the two readings differ observably: caller decides
    AmbiguousAno,
    AmbiguousReset,
}

impl Model {
    pub fn new(channel: u8) -> Self {
        Model {
            channel: channel.min(15),
            held: vec![],
            gate: false,
            note: 0,
            velocity: 0.0,
            pitch_bend: 0.0,
            mod_wheel: 0.0,
            volume: 0.0,
            cutoff: 0.0,
            resonance: 0.0,
            porta_time: 0.0,
            porta_on: true,
            sustain_on: true,
            rising: false,
            falling: false,
            prio: Prio::Last,
            retrigger: false,
            ano_nonzero_acts: None,
            reset_nonzero_acts: None,
            overflowed: false,
            lbl_out_of_order_release: false,
            lbl_duplicate_on: false,
            lbl_stray_off: false,
            lbl_ano_multi: false,
            lbl_gate_falls: 0,
            lbl_ano_while_high: false,
            lbl_stray_off_while_low: false,
            lbl_retrigger_on_while_high: false,
        }
    }

    pub fn obs(&self) -> Obs {
        Obs {
            gate: self.gate,
            note: self.note,
            velocity: self.velocity.to_bits(),
            pitch_bend: self.pitch_bend.to_bits(),
            mod_wheel: self.mod_wheel.to_bits(),
            volume: self.volume.to_bits(),
            cutoff: self.cutoff.to_bits(),
            resonance: self.resonance.to_bits(),
            porta_time: self.porta_time.to_bits(),
            porta_on: self.porta_on,
            sustain_on: self.sustain_on,
        }
    }

    fn choose(&mut self) {
        if let Some(n) = match self.prio {
            Prio::Last => self.held.last().copied(),
            Prio::High => self.held.iter().max().copied(),
            Prio::Low => self.held.iter().min().copied(),
        } {
            self.note = n;
        }
    }

    fn gate_drop(&mut self) {
        if self.gate {
            self.falling = true;
            self.lbl_gate_falls += 1;
        }
        self.gate = false;
        self.rising = false;
    }

    fn note_on(&mut self, n: u8, v: u8) {
        if self.held.len() >= 32 {
            self.overflowed = true;
            return;
        }
        if self.held.contains(&n) {
            self.lbl_duplicate_on = true;
        }
        if self.gate && self.retrigger {
            self.lbl_retrigger_on_while_high = true;
        }
        self.velocity = v as f32 / 127.0;
        let was_low = !self.gate;
        self.held.push(n);
        self.choose();
        self.gate = true;
        self.falling = false;
        if was_low || self.retrigger {
            self.rising = true;
        }
    }

    fn note_off(&mut self, n: u8) {
        if !self.held.contains(&n) {
            self.lbl_stray_off = true;
            if !self.gate {
                self.lbl_stray_off_while_low = true;
            }
        } else if self.held.last() != Some(&n) || self.held.iter().filter(|x| **x == n).count() > 1 {
            self.lbl_out_of_order_release = true;
        }
        self.held.retain(|x| *x != n);
        if self.held.is_empty() {
            self.gate_drop();
        } else {
            self.choose();
        }
    }

    fn all_notes_off(&mut self) {
        if self.held.len() >= 2 {
            self.lbl_ano_multi = true;
        }
        if self.gate {
            self.lbl_ano_while_high = true;
        }
        self.held.clear();
        self.gate_drop();
    }

    pub fn reset_controllers(&mut self) {
        self.pitch_bend = 0.0;
        self.mod_wheel = 0.0;
        self.volume = 0.0;
        self.cutoff = 0.0;
        self.resonance = 0.0;
        self.porta_time = 0.0;
        self.porta_on = true;
        self.sustain_on = true;
    }

    pub fn controllers_at_default(&self) -> bool {
        self.pitch_bend == 0.0
            && self.mod_wheel == 0.0
            && self.volume == 0.0
            && self.cutoff == 0.0
            && self.resonance == 0.0
            && self.porta_time == 0.0
            && self.porta_on
            && self.sustain_on
    }

    /// apply a decoded message. For the two ambiguous channel-mode cases the caller resolves with `resolve_*`.
    pub fn apply(&mut self, m: &Msg) -> Effect {
        if m.status & 0x0F != self.channel {
            return Effect::None;
        }
        match m.status & 0xF0 {
            0x90 => {
                if m.d2 == 0 {
                    self.note_off(m.d1)
                } else {
                    self.note_on(m.d1, m.d2)
                }
            }
            0x80 => self.note_off(m.d1),
            0xE0 => self.pitch_bend = bend_ref((m.d2 as u16) << 7 | m.d1 as u16),
            0xB0 => {
                let v = m.d2 as f32 / 127.0;
                match m.d1 {
                    1 => self.mod_wheel = v,
                    7 => self.volume = v,
                    71 => self.cutoff = v,
                    74 => self.resonance = v,
                    5 => self.porta_time = v,
                    65 => self.porta_on = m.d2 >= 64,
                    64 => self.sustain_on = m.d2 >= 64,
                    121 => {
                        if m.d2 == 0 {
                            self.reset_controllers();
                        } else {
                            match self.reset_nonzero_acts {
                                Some(true) => self.reset_controllers(),
                                Some(false) => {}
                                None => {
                                    if !self.controllers_at_default() {
                                        return Effect::AmbiguousReset;
                                    }
                                }
                            }
                        }
                    }
                    123 => {
                        if m.d2 == 0 {
                            self.all_notes_off();
                        } else {
                            match self.ano_nonzero_acts {
                                Some(true) => self.all_notes_off(),
                                Some(false) => {}
                                None => {
                                    if self.gate {
                                        return Effect::AmbiguousAno;
                                    }
                                }
                            }
                        }
                    }
                    _ => {}
                }
            }
            _ => {}
        }
        Effect::None
    }

    pub fn resolve_ano(&mut self, acts: bool) {
        self.ano_nonzero_acts = Some(acts);
        if acts {
            self.all_notes_off();
        }
    }
    pub fn resolve_reset(&mut self, acts: bool) {
        self.reset_nonzero_acts = Some(acts);
        if acts {
            self.reset_controllers();
        }
    }

    pub fn poll_rising(&mut self) -> bool {
        std::mem::replace(&mut self.rising, false)
    }
    pub fn poll_falling(&mut self) -> bool {
        std::mem::replace(&mut self.falling, false)
    }
}

// ------------------------------------------------------------------------------------------------ ops

#[derive(Debug, Clone, Serialize, Deserialize, PartialEq)]
pub enum MidiOp {
    /// complete channel message: status nibble (0x8..=0xE), channel selector, data; `rs`: use running status if legal
    Chan { kind: u8, own: bool, other: u8, d1: u8, d2: u8, rs: bool },
    RealTime(u8),
    /// complete channel message (always with its status byte) with system real-time bytes inside it: after the status
    /// byte (`at` bit 0), between the two data bytes (`at` bit 1); `at` = 0 counts as bit 0
    ChanRt { kind: u8, own: bool, other: u8, d1: u8, d2: u8, rt: u8, at: u8 },
    /// F0 payload F7
    SysEx(Vec<u8>),
    /// system common status (F1..F6) followed by `n` data bytes
    Common { status: u8, data: Vec<u8> },
    /// a channel status followed by fewer data bytes than the message needs (the next message aborts it)
    Truncated { kind: u8, own: bool, d1: Option<u8> },
    /// arbitrary bytes
    Raw(Vec<u8>),
    /// the same complete channel message n times in a row
    Burst { kind: u8, d1: u8, d2: u8, n: u16 },
    /// n times: note-on(d1), note-off(d1) (the same key tapped again and again)
    AltBurst { d1: u8, n: u16 },
    SetPriority(Prio),
    SetRetrigger(bool),
    PollRising,
    PollFalling,
    PollBoth,
}

#[derive(Debug, Clone, Serialize, Deserialize, PartialEq)]
pub struct MidiCase {
    pub channel: u8,
    pub ops: Vec<MidiOp>,
}

/// bytes of one op given the encoder's running status (updated)
pub fn encode(op: &MidiOp, channel: u8, running: &mut Option<u8>, out: &mut Vec<u8>) {
    out.clear();
    match op {
        MidiOp::Chan { kind, own, other, d1, d2, rs } => {
            let k = 0x8 + (*kind % 7);
            let ch = if *own { channel } else { (channel + 1 + *other % 15) % 16 };
            let status = k << 4 | ch;
            if !(*rs && *running == Some(status)) {
                out.push(status);
            }
            *running = Some(status);
            out.push(*d1 & 0x7F);
            if data_len(status) == 2 {
                out.push(*d2 & 0x7F);
            }
        }
        MidiOp::RealTime(b) => out.push(0xF8 + (*b % 8)),
        MidiOp::ChanRt { kind, own, other, d1, d2, rt, at } => {
            let k = 0x8 + (*kind % 7);
            let ch = if *own { channel } else { (channel + 1 + *other % 15) % 16 };
            let status = k << 4 | ch;
            let at = if *at & 3 == 0 { 1 } else { *at & 3 };
            out.push(status);
            *running = Some(status);
            if at & 1 != 0 {
                out.push(0xF8 + (*rt % 8));
            }
            out.push(*d1 & 0x7F);
            if data_len(status) == 2 {
                if at & 2 != 0 {
                    out.push(0xF8 + ((*rt / 8) % 8));
                }
                out.push(*d2 & 0x7F);
            }
        }
        MidiOp::SysEx(p) => {
            out.push(0xF0);
            out.extend(p.iter().map(|b| b & 0x7F));
            out.push(0xF7);
            *running = None;
        }
        MidiOp::Common { status, data } => {
            out.push(0xF1 + (*status % 6));
            out.extend(data.iter().map(|b| b & 0x7F));
            *running = None;
        }
        MidiOp::Truncated { kind, own, d1 } => {
            let k = 0x8 + (*kind % 7);
            let ch = if *own { channel } else { (channel + 1) % 16 };
            let status = k << 4 | ch;
            out.push(status);
            if data_len(status) == 2 {
                if let Some(d) = d1 {
                    out.push(*d & 0x7F);
                }
            }
            // what follows must start with a status byte: forget the running status so the encoder emits one
            *running = None;
        }
        MidiOp::Raw(b) => {
            out.extend_from_slice(b);
            *running = None; // unknown: force explicit status afterwards
        }
        MidiOp::AltBurst { d1, n } => {
            for i in 0..*n {
                out.push(0x90 | channel);
                out.push(*d1 & 0x7F);
                out.push(1 + (i % 100) as u8);
                out.push(0x80 | channel);
                out.push(*d1 & 0x7F);
                out.push(0);
            }
            *running = Some(0x80 | channel);
        }
        MidiOp::Burst { kind, d1, d2, n } => {
            let k = 0x8 + (*kind % 7);
            let status = k << 4 | channel;
            for i in 0..*n {
                // running status for every second repetition
                if i % 2 == 0 || *running != Some(status) {
                    out.push(status);
                }
                *running = Some(status);
                out.push(*d1 & 0x7F);
                if data_len(status) == 2 {
                    out.push(*d2 & 0x7F);
                }
            }
        }
        _ => {}
    }
}

fn to_prio(p: Prio) -> NotePriority {
    match p {
        Prio::Last => NotePriority::Last,
        Prio::High => NotePriority::High,
        Prio::Low => NotePriority::Low,
    }
}

pub struct CaseInfo {
    pub nontrivial: bool,
}

fn cmp_fields(mask: u32, real: &Obs, model: &Obs) -> Option<&'static str> {
    if mask & C04 != 0 {
        if real.gate != model.gate {
            return Some("gate");
        }
        if real.note != model.note {
            return Some("note_num");
        }
        if real.velocity != model.velocity {
            return Some("velocity");
        }
    }
    if mask & C18 != 0 {
        if real.pitch_bend != model.pitch_bend {
            return Some("pitch_bend");
        }
        if real.mod_wheel != model.mod_wheel {
            return Some("mod_wheel");
        }
        if real.volume != model.volume {
            return Some("volume");
        }
        if real.cutoff != model.cutoff {
            return Some("vcf_cutoff");
        }
        if real.resonance != model.resonance {
            return Some("vcf_resonance");
        }
        if real.porta_time != model.porta_time {
            return Some("portamento_time");
        }
        if real.porta_on != model.porta_on {
            return Some("portamento_enabled");
        }
        if real.sustain_on != model.sustain_on {
            return Some("sustain_enabled");
        }
    }
    None
}

/// Model-based check (C04 / C05 / C18 by mask) of one structured case.
pub fn run_case(case: &MidiCase, mask: u32, stats: &mut Stats) -> Result<CaseInfo, Failure> {
    let ch = case.channel.min(15);
    let mut real = MonoMidiReceiver::new(case.channel);
    let mut model = Model::new(ch);
    let mut dec = Decoder::default();
    let mut running: Option<u8> = None;
    let mut bytes = vec![];
    let mut msgs_since_poll = 0u32;
    let mut poll_after_two = false;
    let mut prio_not_last = false;
    let mut n_bytes = 0u64;
    let mut n_msgs = 0u64;
    let mut note_traffic = false;
    let mut cc_traffic = false;
    let mut last_obs = observe(&real);
    let mut latch_rising = false;
    let mut latch_falling = false;
    let mut gate_before = real.gate();

    for (step, op) in case.ops.iter().enumerate() {
        match op {
            MidiOp::SetPriority(p) => {
                real.set_note_priority(to_prio(*p));
                model.prio = *p;
                if *p != Prio::Last {
                    prio_not_last = true;
                }
            }
            MidiOp::SetRetrigger(r) => {
                real.set_retrigger_mode(if *r { RetriggerMode::AllowRetrigger } else { RetriggerMode::NoRetrigger });
                model.retrigger = *r;
            }
            MidiOp::PollRising | MidiOp::PollFalling | MidiOp::PollBoth => {
                if mask & C05 != 0 {
                    if msgs_since_poll >= 2 {
                        poll_after_two = true;
                    }
                    msgs_since_poll = 0;
                    let gate = real.gate();
                    if !matches!(op, MidiOp::PollFalling) {
                        let r = real.rising_gate();
                        let _ = model.poll_rising();
                        let m = std::mem::replace(&mut latch_rising, false);
                        stats.count("edge_polls", 1);
                        if r && !gate {
                            return Err(Failure::new("C05.rising_implies_gate", step, "rising_gate() returned true while gate() is false".into()));
                        }
                        if r != m {
                            return Err(Failure::new(
                                "C05.rising",
                                step,
                                format!("rising_gate() = {}, expected {} (gate {}, outstanding notes {:?}, retrigger {})", r, m, gate, model.held, model.retrigger),
                            ));
                        }
                    }
                    if !matches!(op, MidiOp::PollRising) {
                        let r = real.falling_gate();
                        let _ = model.poll_falling();
                        let m = std::mem::replace(&mut latch_falling, false);
                        stats.count("edge_polls", 1);
                        if r && gate {
                            return Err(Failure::new("C05.falling_implies_low", step, "falling_gate() returned true while gate() is true".into()));
                        }
                        if r != m {
                            return Err(Failure::new(
                                "C05.falling",
                                step,
                                format!("falling_gate() = {}, expected {} (gate {}, held {:?})", r, m, gate, model.held),
                            ));
                        }
                    }
                }
            }
            _ => {
                encode(op, ch, &mut running, &mut bytes);
                for &b in bytes.iter() {
                    real.parse(b);
                    n_bytes += 1;
                    if let Some(m) = dec.feed(b) {
                        n_msgs += 1;
                        let own = m.status & 0x0F == ch;
                        // C05 latches follow the gate transitions that are actually observed (so this oracle does not
                        // depend on C04): falling is set when gate() goes true -> false and cleared by a note-on; rising
                        // is set by a note-on that raises the gate (or any note-on in retrigger mode) and cleared when
                        // the gate drops
                        let gate_after = real.gate();
                        let is_note_on = own && m.status & 0xF0 == 0x90 && m.d2 > 0;
                        if is_note_on {
                            latch_falling = false;
                            if (!gate_before && gate_after) || (model.retrigger && gate_after) {
                                latch_rising = true;
                            }
                        }
                        if gate_before && !gate_after {
                            latch_falling = true;
                            latch_rising = false;
                        }
                        gate_before = gate_after;
                        if own && matches!(m.status & 0xF0, 0x80 | 0x90) {
                            note_traffic = true;
                        }
                        if own && matches!(m.status & 0xF0, 0xB0 | 0xE0) {
                            cc_traffic = true;
                        }
                        match model.apply(&m) {
                            Effect::None => {}
                            Effect::AmbiguousAno => {
                                let acts = !real.gate();
                                model.resolve_ano(acts);
                                stats.count("label.cc123_nonzero_value_decisive", 1);
                            }
                            Effect::AmbiguousReset => {
                                let o = observe(&real);
                                let mut probe = model.clone();
                                probe.reset_controllers();
                                let acts = cmp_fields(C18, &o, &probe.obs()).is_none();
                                model.resolve_reset(acts);
                                stats.count("label.cc121_nonzero_value_decisive", 1);
                            }
                        }
                        if model.overflowed && mask != C05 {
                            // C04's domain ends at 32 outstanding note-ons; C05's latches follow the observed gate and
                            // the decoded note-ons only, so that check simply carries on
                            stats.count("cases_truncated_more_than_32_notes_outstanding", 1);
                            return Ok(CaseInfo { nontrivial: false });
                        }
                        if model.overflowed {
                            stats.count("label.more_than_32_note_ons_outstanding", 1);
                            model.overflowed = false;
                        }
                        msgs_since_poll += 1;
                        let o = observe(&real);
                        if mask & C18 != 0 && own && m.status & 0xF0 == 0xB0 && m.d1 != 123 {
                            // "no controller changes anything else": gate / note / velocity as before the message
                            if (o.gate, o.note, o.velocity) != (last_obs.gate, last_obs.note, last_obs.velocity) {
                                return Err(Failure::new(
                                    "C18.controller_leaves_notes_alone",
                                    step,
                                    format!(
                                        "controller {} value {} changed gate/note/velocity: before [{}] after [{}]",
                                        m.d1,
                                        m.d2,
                                        obs_text(&last_obs),
                                        obs_text(&o)
                                    ),
                                ));
                            }
                        }
                        last_obs = o;
                        if let Some(field) = cmp_fields(mask, &o, &model.obs()) {
                            let rule = if matches!(field, "gate" | "note_num" | "velocity") { "C04" } else { "C18" };
                            return Err(Failure::new(
                                &format!("{}.{}", rule, field),
                                step,
                                format!(
                                    "after message {:02X} {:02X} {:02X} (listening on channel {}): receiver [{}] expected [{}] (held {:?}, priority {:?})",
                                    m.status,
                                    m.d1,
                                    m.d2,
                                    ch,
                                    obs_text(&o),
                                    obs_text(&model.obs()),
                                    model.held,
                                    model.prio
                                ),
                            ));
                        }
                    }
                }
            }
        }
    }
    stats.count("bytes", n_bytes);
    stats.count("messages", n_msgs);
    if dec.realtime_inside_message {
        stats.count("label.realtime_byte_inside_message", 1);
    }
    let mut nt = false;
    if mask & C04 != 0 {
        let shape = model.lbl_out_of_order_release || model.lbl_duplicate_on || model.lbl_stray_off || model.lbl_ano_multi;
        for (l, f) in [
            ("label.out_of_order_release", model.lbl_out_of_order_release),
            ("label.duplicate_note_on", model.lbl_duplicate_on),
            ("label.stray_note_off", model.lbl_stray_off),
            ("label.all_notes_off_with>=2_held", model.lbl_ano_multi),
            ("label.priority_other_than_last", prio_not_last),
        ] {
            if f {
                stats.count(l, 1);
            }
        }
        nt |= shape && prio_not_last;
    }
    if mask & C05 != 0 {
        let special = model.lbl_ano_while_high || model.lbl_stray_off_while_low || model.lbl_retrigger_on_while_high;
        for (l, f) in [
            ("label.all_notes_off_while_gate_high", model.lbl_ano_while_high),
            ("label.stray_note_off_while_gate_low", model.lbl_stray_off_while_low),
            ("label.retrigger_note_on_while_gate_high", model.lbl_retrigger_on_while_high),
            ("label.poll_after>=2_messages", poll_after_two),
        ] {
            if f {
                stats.count(l, 1);
            }
        }
        nt |= model.lbl_gate_falls >= 1 && poll_after_two && special;
    }
    if mask & C18 != 0 {
        nt |= cc_traffic && note_traffic;
    }
    Ok(CaseInfo { nontrivial: nt })
}

// ------------------------------------------------------------------------------------------------ C06

/// canonical re-encoding of a decoded message if the receiver supports it on its channel
fn canonical(m: &Msg, ch: u8) -> Option<[u8; 3]> {
    if m.status & 0x0F != ch {
        return None;
    }
    match m.status & 0xF0 {
        0x80 | 0x90 | 0xB0 | 0xE0 => Some([m.status, m.d1, m.d2]),
        _ => None,
    }
}

#[derive(Debug, Clone, Serialize, Deserialize, PartialEq)]
pub struct StreamCase {
    pub channel: u8,
    pub prio: Prio,
    pub retrigger: bool,
    /// poll the edge getters of both receivers after byte i when bit (i % 64) of this mask is set
    pub poll_mask: u64,
    pub bytes: Vec<u8>,
}

/// C06: framing differential after every byte, all getters (pure ones always, edge getters at poll positions).
pub fn run_stream(case: &StreamCase, stats: &mut Stats) -> Result<CaseInfo, Failure> {
    let ch = case.channel.min(15);
    let mut raw = MonoMidiReceiver::new(case.channel);
    let mut canon = MonoMidiReceiver::new(case.channel);
    for r in [&mut raw, &mut canon] {
        r.set_note_priority(to_prio(case.prio));
        r.set_retrigger_mode(if case.retrigger { RetriggerMode::AllowRetrigger } else { RetriggerMode::NoRetrigger });
    }
    let mut dec = Decoder::default();
    let mut supported = 0u32;
    // count outstanding note-ons with the reference model to stay inside the 32-note domain
    let mut model = Model::new(ch);
    for (i, &b) in case.bytes.iter().enumerate() {
        let fed = catch(|| raw.parse(b));
        if let Err(msg) = fed {
            return Err(Failure::new(
                "C06.panic",
                i,
                format!("parse({:#04x}) panicked at byte index {}: {}", b, i, msg),
            ));
        }
        if let Some(m) = dec.feed(b) {
            if let Some(c) = canonical(&m, ch) {
                let _ = model.apply(&m);
                if model.overflowed {
                    stats.count("cases_truncated_more_than_32_notes_outstanding", 1);
                    return Ok(CaseInfo { nontrivial: false });
                }
                for x in c {
                    canon.parse(x);
                }
                supported += 1;
            }
        }
        let (a, c) = (observe(&raw), observe(&canon));
        if a != c {
            return Err(Failure::new(
                "C06.framing",
                i,
                format!(
                    "after byte index {} ({:#04x}) of {:02X?}: receiver [{}]; decoding the stream per MIDI 1.0 and feeding only the supported channel-{} messages gives [{}]",
                    i,
                    b,
                    &case.bytes[..=i].iter().rev().take(12).rev().collect::<Vec<_>>(),
                    obs_text(&a),
                    ch,
                    obs_text(&c)
                ),
            ));
        }
        if case.poll_mask >> (i % 64) & 1 == 1 {
            let (r1, r2) = (raw.rising_gate(), canon.rising_gate());
            let (f1, f2) = (raw.falling_gate(), canon.falling_gate());
            if r1 != r2 || f1 != f2 {
                return Err(Failure::new(
                    "C06.framing_edges",
                    i,
                    format!(
                        "after byte index {}: edge getters (rising {}, falling {}) differ from those of the canonical stream (rising {}, falling {})",
                        i, r1, f1, r2, f2
                    ),
                ));
            }
        }
    }
    stats.count("bytes", case.bytes.len() as u64);
    stats.count("supported_messages", supported as u64);
    let special = dec.used_running_status || dec.realtime_inside_message || dec.aborted_partial || dec.saw_sysex || dec.saw_system_common;
    for (l, f) in [
        ("label.running_status", dec.used_running_status),
        ("label.realtime_inside_message", dec.realtime_inside_message),
        ("label.aborted_partial_message", dec.aborted_partial),
        ("label.sysex", dec.saw_sysex),
        ("label.system_common", dec.saw_system_common),
    ] {
        if f {
            stats.count(l, 1);
        }
    }
    Ok(CaseInfo { nontrivial: supported >= 1 && special })
}

/// Metamorphic C06 check that does not use the reference decoder at all: a well-formed stream S (chunks) and S'
/// with real-time bytes inserted at arbitrary byte offsets and foreign/unsupported complete messages inserted
/// before chunks that start with an explicit status. Outputs after every original chunk must be identical.
#[derive(Debug, Clone, Serialize, Deserialize, PartialEq)]
pub struct MetaCase {
    pub channel: u8,
    pub ops: Vec<MidiOp>,
    /// (chunk index, byte offset inside the chunk, real-time byte)
    pub realtime: Vec<(u16, u8, u8)>,
    /// (chunk index, foreign message op) - inserted before the chunk when the chunk begins with a status byte
    pub foreign: Vec<(u16, MidiOp)>,
}

pub fn run_meta(case: &MetaCase, stats: &mut Stats) -> Result<CaseInfo, Failure> {
    let ch = case.channel.min(15);
    let mut a = MonoMidiReceiver::new(case.channel);
    let mut b = MonoMidiReceiver::new(case.channel);
    let mut running: Option<u8> = None;
    let mut chunk = vec![];
    let mut tmp = vec![];
    let mut inserted_rt_inside = false;
    let mut inserted_foreign = false;
    let mut own_msgs = 0u32;
    let n_chunks = case.ops.len().max(1);
    let mut outstanding = Model::new(ch);
    let mut dec = Decoder::default();
    for (i, op) in case.ops.iter().enumerate() {
        match op {
            MidiOp::SetPriority(p) => {
                a.set_note_priority(to_prio(*p));
                b.set_note_priority(to_prio(*p));
                continue;
            }
            MidiOp::SetRetrigger(r) => {
                for x in [&mut a, &mut b] {
                    x.set_retrigger_mode(if *r { RetriggerMode::AllowRetrigger } else { RetriggerMode::NoRetrigger });
                }
                continue;
            }
            MidiOp::PollRising | MidiOp::PollFalling | MidiOp::PollBoth => {
                let (r1, r2) = (a.rising_gate(), b.rising_gate());
                let (f1, f2) = (a.falling_gate(), b.falling_gate());
                if r1 != r2 || f1 != f2 {
                    return Err(Failure::new(
                        "C06.transparent_edges",
                        i,
                        format!("edge getters differ after inserting ignorable traffic: plain (rising {}, falling {}), with insertions (rising {}, falling {})", r1, f1, r2, f2),
                    ));
                }
                continue;
            }
            MidiOp::Chan { own: true, .. } | MidiOp::ChanRt { own: true, .. } => {
                own_msgs += 1;
            }
            _ => {}
        }
        encode(op, ch, &mut running, &mut chunk);
        if chunk.is_empty() {
            continue;
        }
        for &x in &chunk {
            if let Some(m) = dec.feed(x) {
                let _ = outstanding.apply(&m);
            }
        }
        if outstanding.overflowed {
            stats.count("cases_truncated_more_than_32_notes_outstanding", 1);
            return Ok(CaseInfo { nontrivial: false });
        }
        // plain stream
        for &x in &chunk {
            a.parse(x);
        }
        // stream with insertions
        if chunk[0] >= 0x80 && chunk[0] < 0xF0 {
            for (ci, f) in &case.foreign {
                if *ci as usize % n_chunks == i {
                    if let MidiOp::Chan { kind, other, d1, d2, .. } = f {
                        // complete message with explicit status: another channel, or an unsupported type on ours
                        let unsupported = [0xAu8, 0xC, 0xD];
                        let mut none = None;
                        let op2 = if *kind % 2 == 0 {
                            MidiOp::Chan { kind: *kind, own: false, other: *other, d1: *d1, d2: *d2, rs: false }
                        } else {
                            MidiOp::Chan { kind: unsupported[(*kind as usize / 2) % 3] - 8, own: true, other: 0, d1: *d1, d2: *d2, rs: false }
                        };
                        encode(&op2, ch, &mut none, &mut tmp);
                        for &x in &tmp {
                            b.parse(x);
                        }
                        inserted_foreign = true;
                    }
                }
            }
        }
        for (off, &x) in chunk.iter().enumerate() {
            for (ci, o, rt) in &case.realtime {
                if *ci as usize % n_chunks == i && (*o as usize) % chunk.len() == off {
                    b.parse(0xF8 + rt % 8);
                    if off > 0 {
                        inserted_rt_inside = true;
                    }
                }
            }
            b.parse(x);
        }
        let (oa, ob) = (observe(&a), observe(&b));
        if oa != ob {
            return Err(Failure::new(
                "C06.transparent",
                i,
                format!(
                    "after chunk {} ({:02X?}): plain stream gives [{}], the same stream with real-time bytes / foreign-channel / unsupported messages inserted gives [{}]",
                    i,
                    chunk,
                    obs_text(&oa),
                    obs_text(&ob)
                ),
            ));
        }
    }
    if inserted_rt_inside {
        stats.count("label.realtime_inserted_inside_a_message", 1);
    }
    if inserted_foreign {
        stats.count("label.foreign_or_unsupported_message_inserted", 1);
    }
    Ok(CaseInfo { nontrivial: own_msgs >= 1 && (inserted_rt_inside || inserted_foreign) })
}

// ------------------------------------------------------------------------------------------------ C18 complete

/// one cell of the complete C18 generator: controller `cc` with `val` on `msg_ch`, receiver listening on `listen`,
/// prior state randomised by `prior` (values sent to every routed controller first).
pub fn c18_cell(listen: u8, msg_ch: u8, cc: u8, val: u8, prior: u8) -> Result<(), Failure> {
    let mut r = MonoMidiReceiver::new(listen);
    let mut m = Model::new(listen);
    let mut dec = Decoder::default();
    let send = |r: &mut MonoMidiReceiver, m: &mut Model, dec: &mut Decoder, bytes: &[u8]| {
        for &b in bytes {
            r.parse(b);
            if let Some(msg) = dec.feed(b) {
                match m.apply(&msg) {
                    Effect::None => {}
                    Effect::AmbiguousAno => {
                        let acts = !r.gate();
                        m.resolve_ano(acts)
                    }
                    Effect::AmbiguousReset => {
                        let o = observe(r);
                        let mut probe = m.clone();
                        probe.reset_controllers();
                        let acts = cmp_fields(C18, &o, &probe.obs()).is_none();
                        m.resolve_reset(acts)
                    }
                }
            }
        }
    };
    // prior state: every routed controller gets a non-default value, a note is held, pitch bend moved
    let p = prior & 0x7F;
    let st = 0xB0 | listen;
    for (i, c) in [1u8, 7, 71, 74, 5, 65, 64].iter().enumerate() {
        send(&mut r, &mut m, &mut dec, &[st, *c, (p.wrapping_mul(37).wrapping_add(i as u8 * 19)) & 0x7F]);
    }
    send(&mut r, &mut m, &mut dec, &[0xE0 | listen, p, (p ^ 0x55) & 0x7F]);
    send(&mut r, &mut m, &mut dec, &[0x90 | listen, 60, 100]);
    let _ = r.rising_gate();
    let _ = m.poll_rising();
    let before = observe(&r);
    send(&mut r, &mut m, &mut dec, &[0xB0 | msg_ch, cc, val]);
    let after = observe(&r);
    let want = m.obs();
    if let Some(field) = cmp_fields(C18 | if cc == 123 { 0 } else { C04 }, &after, &want) {
        return Err(Failure::new(
            &format!("C18.{}", field),
            0,
            format!(
                "listening on {}, controller {} value {} on channel {}: before [{}] after [{}] expected [{}]",
                listen,
                cc,
                val,
                msg_ch,
                obs_text(&before),
                obs_text(&after),
                obs_text(&want)
            ),
        )
        .with(serde_json::json!({"listen": listen, "msg_ch": msg_ch, "cc": cc, "val": val, "prior": prior})));
    }
    if cc != 123 {
        // edges untouched by controllers
        if r.rising_gate() || r.falling_gate() {
            return Err(Failure::new(
                "C18.edges_untouched",
                0,
                format!("controller {} value {} on channel {} (listening on {}) raised an edge flag", cc, val, msg_ch, listen),
            )
            .with(serde_json::json!({"listen": listen, "msg_ch": msg_ch, "cc": cc, "val": val, "prior": prior})));
        }
    }
    Ok(())
}

/// pitch bend: all 16384 values on one channel, LSB first; strictly increasing, anchors exact
pub fn c18_bend(listen: u8) -> Result<u64, Failure> {
    let mut r = MonoMidiReceiver::new(listen);
    let mut prev: Option<f32> = None;
    for v in 0..16384u16 {
        if v % 3 == 0 {
            // the very same value on another channel first: must not be heard, and must not mask the real one
            let other = (listen + 1 + (v % 15) as u8) % 16;
            r.parse(0xE0 | other);
            r.parse((v & 0x7F) as u8);
            r.parse((v >> 7) as u8);
        }
        r.parse(0xE0 | listen);
        r.parse((v & 0x7F) as u8);
        r.parse((v >> 7) as u8);
        let b = r.pitch_bend();
        let data = serde_json::json!({"listen": listen, "bend": v});
        if let Some(p) = prev {
            if !(b > p) {
                return Err(Failure::new(
                    "C18.bend_monotone",
                    0,
                    format!("pitch bend value {} -> {} but value {} -> {} (not strictly increasing)", v - 1, p, v, b),
                )
                .with(data));
            }
        }
        let anchor = match v {
            0 => Some(-1.0f32),
            8192 => Some(0.0),
            16383 => Some(1.0),
            _ => None,
        };
        if let Some(a) = anchor {
            if b != a {
                return Err(Failure::new("C18.bend_anchor", 0, format!("pitch bend value {} -> {}, expected exactly {}", v, b, a)).with(data));
            }
        }
        if !(b >= -1.0 && b <= 1.0) {
            return Err(Failure::new("C18.bend_range", 0, format!("pitch bend value {} -> {}", v, b)).with(data));
        }
        // foreign channel must not move it
        let other = (listen + 1 + (v % 15) as u8) % 16;
        r.parse(0xE0 | other);
        r.parse(((v as u32 * 7) & 0x7F) as u8);
        r.parse(((v as u32 * 3) & 0x7F) as u8);
        if r.pitch_bend().to_bits() != b.to_bits() {
            return Err(Failure::new(
                "C18.bend_foreign_channel",
                0,
                format!("pitch bend on channel {} changed the output of a receiver listening on {}", other, listen),
            )
            .with(data));
        }
        prev = Some(b);
    }
    Ok(16384)
}

/// controller reset from every boundary-valued state: each of the five continuous controllers in {0, 1, 64, 127}, pitch
/// bend in {raw 0, 8192, 16383, 5000}, both switches on/off (4^5 * 4 * 4 = 16384 states); after CC 121 every controller
/// getter must equal that of a fresh receiver
pub fn c18_reset_states(listen: u8) -> Result<u64, Failure> {
    let fresh = observe(&MonoMidiReceiver::new(listen));
    let vals = [0u8, 1, 64, 127];
    let bends = [0u16, 8192, 16383, 5000];
    let ccs = [1u8, 7, 71, 74, 5];
    let mut n = 0u64;
    for state in 0..(1024u32 * 16) {
        let mut r = MonoMidiReceiver::new(listen);
        let mut s = state;
        let mut desc = vec![];
        for c in ccs {
            let v = vals[(s % 4) as usize];
            s /= 4;
            if v != 0 {
                r.parse(0xB0 | listen);
                r.parse(c);
                r.parse(v);
                desc.push((c, v));
            }
        }
        let b = bends[(s % 4) as usize];
        s /= 4;
        r.parse(0xE0 | listen);
        r.parse((b & 0x7F) as u8);
        r.parse((b >> 7) as u8);
        let (porta, sustain) = (s % 2 == 0, (s / 2) % 2 == 0);
        r.parse(0xB0 | listen);
        r.parse(65);
        r.parse(if porta { 127 } else { 0 });
        r.parse(64);
        r.parse(if sustain { 127 } else { 0 });
        r.parse(0xB0 | listen);
        r.parse(121);
        r.parse(0);
        let o = observe(&r);
        if cmp_fields(C18, &o, &fresh).is_some() {
            return Err(Failure::new(
                "C18.reset_from_any_state",
                0,
                format!(
                    "listening on {}: controllers {:?}, pitch bend raw {}, portamento {}, sustain {}, then CC 121: [{}] instead of the power-on state [{}]",
                    listen,
                    desc,
                    b,
                    porta,
                    sustain,
                    obs_text(&o),
                    obs_text(&fresh)
                ),
            )
            .with(serde_json::json!({"listen": listen, "reset_state": state})));
        }
        n += 1;
    }
    Ok(n)
}

/// scaling along the value axis for the routed controllers (fresh receiver): value/127 exactly, strictly increasing
pub fn c18_scaling(listen: u8) -> Result<(), Failure> {
    for (cc, idx) in [(1u8, 0usize), (7, 1), (71, 2), (74, 3), (5, 4)] {
        let mut r = MonoMidiReceiver::new(listen);
        let mut prev = -1.0f32;
        for v in 0..128u8 {
            r.parse(0xB0 | listen);
            r.parse(cc);
            r.parse(v);
            let got = [r.mod_wheel(), r.volume(), r.vcf_cutoff(), r.vcf_resonance(), r.portamento_time()][idx];
            let want = v as f32 / 127.0;
            if got != want || !(got > prev) {
                return Err(Failure::new(
                    "C18.scaling",
                    0,
                    format!("controller {} value {} -> {}, expected {} (previous {})", cc, v, got, want, prev),
                )
                .with(serde_json::json!({"listen": listen, "msg_ch": listen, "cc": cc, "val": v, "prior": 0})));
            }
            prev = got;
        }
    }
    Ok(())
}
