//! Byte-level decoders for the libFuzzer targets: the fuzzer's bytes are turned into the same case types the
//! proptest harness generates, and the same interpreters/oracles judge them. `fuzz_entry` is the single in-process
//! entry point of every target (the crate under test has no global state, every iteration builds fresh objects).

use crate::common::*;
use crate::{adsr, api, glide, midi, quant, ribbon};
use serde_json::Value;
use std::sync::OnceLock;

pub struct Rd<'a> {
    d: &'a [u8],
    p: usize,
}

impl<'a> Rd<'a> {
    pub fn new(d: &'a [u8]) -> Self {
        Rd { d, p: 0 }
    }
    pub fn more(&self) -> bool {
        self.p < self.d.len()
    }
    pub fn rest(&mut self) -> &'a [u8] {
        let r = &self.d[self.p.min(self.d.len())..];
        self.p = self.d.len();
        r
    }
    pub fn u8(&mut self) -> u8 {
        let v = self.d.get(self.p).copied().unwrap_or(0);
        self.p += 1;
        v
    }
    pub fn u16(&mut self) -> u16 {
        (self.u8() as u16) << 8 | self.u8() as u16
    }
    pub fn u32(&mut self) -> u32 {
        (self.u16() as u32) << 16 | self.u16() as u32
    }
    /// uniform-ish in [0,1]
    pub fn unit(&mut self) -> f64 {
        self.u16() as f64 / 65535.0
    }
    pub fn f32_bits(&mut self) -> f32 {
        f32::from_bits(self.u32())
    }
    pub fn bool(&mut self) -> bool {
        self.u8() & 1 == 1
    }
    pub fn bytes(&mut self, max: usize) -> Vec<u8> {
        let n = (self.u8() as usize) % (max + 1);
        (0..n).map(|_| self.u8()).collect()
    }
}

const RATES: [f32; 12] = [100.0, 999.0, 1000.0, 1001.0, 4000.0, 8000.0, 22050.0, 44100.0, 48000.0, 96000.0, 192000.0, 131072.0];

fn rate(r: &mut Rd, max: f64) -> f32 {
    let sel = r.u8();
    let f = if sel < 128 {
        RATES[(sel as usize) % RATES.len()]
    } else {
        (100.0f64.ln() + r.unit() * (max.ln() - 100.0f64.ln())).exp() as f32
    };
    f.max(100.0).min(max as f32)
}

const WILD: [f32; 16] = [
    0.0,
    -0.0,
    f32::MAX,
    f32::MIN,
    f32::MIN_POSITIVE,
    1e-45,
    -1e-45,
    1e30,
    -1e30,
    1e9,
    -1.0,
    f32::NAN,
    f32::INFINITY,
    f32::NEG_INFINITY,
    0.001,
    20.0,
];

fn adsr_time(r: &mut Rd, fs: f32, finite_only: bool) -> f32 {
    match r.u8() % 8 {
        0 | 1 | 2 => (0.001f64.ln() + r.unit() * (20.0f64 / 0.001).ln()).exp() as f32,
        3 | 4 => ((0.2 + 3.0 * r.unit()) / fs as f64) as f32,
        5 => {
            if r.bool() {
                (0.001 + r.unit() * 5.0 / fs as f64) as f32
            } else {
                [0.25f32, 0.5, 1.0, 2.0, 3.0, 4.0, 8.0, 16.0][(r.u8() % 8) as usize] / fs
            }
        }
        6 => {
            let w = WILD[(r.u8() % 16) as usize];
            if finite_only && !w.is_finite() {
                0.0
            } else {
                w
            }
        }
        _ => {
            let x = r.f32_bits();
            if finite_only && !x.is_finite() {
                1.0
            } else {
                x
            }
        }
    }
}

fn sustain(r: &mut Rd, finite_only: bool) -> f32 {
    match r.u8() % 6 {
        0 | 1 | 2 => r.unit() as f32,
        3 => [0.0f32, 1.0, -0.0, 0.5][(r.u8() % 4) as usize],
        4 => (r.unit() * 2.0 - 0.5) as f32,
        _ => {
            let w = WILD[(r.u8() % 16) as usize];
            if finite_only && !w.is_finite() {
                0.5
            } else {
                w
            }
        }
    }
}

pub fn adsr_case(data: &[u8]) -> adsr::AdsrCase {
    use adsr::AdsrOp::*;
    let mut r = Rd::new(data);
    let fs = rate(&mut r, 192_000.0);
    let mut ops = vec![];
    while r.more() && ops.len() < 60 {
        ops.push(match r.u8() % 16 {
            0 | 1 | 2 => GateOn,
            3 | 4 => GateOff,
            5 => Tick(1 + (r.u8() % 4) as u32),
            6 | 7 => Tick(1 + (r.u16() % 300) as u32),
            8 => Tick(1 + (r.u16() % 20_000) as u32),
            9 | 10 => TickFrac((r.unit() * 1.3) as f32),
            11 => Seek((r.unit() * 0.999) as f32),
            12 => SetAttack(adsr_time(&mut r, fs, false)),
            13 => SetDecay(adsr_time(&mut r, fs, false)),
            14 => {
                if r.bool() {
                    SetRelease(adsr_time(&mut r, fs, false))
                } else {
                    NudgeTime { dst: r.u8() % 3, src: r.u8() % 3, rel: ((r.unit() - 0.5) * 2e-3) as f32 }
                }
            }
            _ => SetSustain(sustain(&mut r, false)),
        });
    }
    adsr::AdsrCase { fs, ops }
}

fn quant_v(r: &mut Rd) -> f32 {
    match r.u8() % 8 {
        0 | 1 | 2 => (r.unit() * 10.0) as f32,
        3 | 4 => {
            let k = r.u8() as f64 % 241.0;
            let d = [0.0, 1e-6, -1e-6, 1e-5, -1e-5, 1e-4, -1e-4, 2e-5][(r.u8() % 8) as usize];
            (k / 24.0 + d) as f32
        }
        5 => {
            let k = (r.u8() % 121) as f64;
            let e = if r.bool() { -quant::HYST } else { quant::SEMI + quant::HYST };
            (k / 12.0 + e + (r.unit() - 0.5) * 6e-5) as f32
        }
        6 => (r.unit() * 12.0 - 1.0) as f32,
        _ => {
            if r.bool() {
                WILD[(r.u8() % 16) as usize]
            } else {
                r.f32_bits()
            }
        }
    }
}

fn note_list(r: &mut Rd) -> Vec<u8> {
    let n = (r.u8() % 13) as usize;
    (0..n)
        .map(|_| {
            let b = r.u8();
            if b < 224 {
                b % 12
            } else {
                b
            }
        })
        .collect()
}

pub fn quant_case(data: &[u8]) -> quant::QuantCase {
    use quant::QuantOp::*;
    let mut r = Rd::new(data);
    let mut ops = vec![];
    while r.more() && ops.len() < 80 {
        ops.push(match r.u8() % 16 {
            0 | 1 => Allow(note_list(&mut r)),
            2 | 3 | 4 => Forbid(note_list(&mut r)),
            5 | 6 => ForbidLast({
                let n = (r.u8() % 4) as usize;
                (0..n).map(|_| r.u8() % 12).collect()
            }),
            7 | 8 | 9 | 10 => Convert(quant_v(&mut r)),
            11 => {
                if r.u8() % 4 == 0 {
                    EditBurst { note: r.u8() % 12, n: [255u16, 256, 257, 511, 512, 128, 64, 3][(r.u8() % 8) as usize] }
                } else {
                    ConvertSame
                }
            }
            12 => ConvertNudge(((r.unit() - 0.5) * 0.04) as f32),
            13 => Ramp {
                start: (r.unit() * 10.0) as f32,
                step: {
                    let s = (1e-4 + r.unit() * 0.03) as f32;
                    if r.bool() {
                        s
                    } else {
                        -s
                    }
                },
                n: 2 + r.u8() % 38,
            },
            _ => Noise {
                k: r.u8() % 121,
                amp: (r.unit() * 1.3) as f32,
                offs: {
                    let n = 2 + (r.u8() % 28) as usize;
                    (0..n).map(|_| (r.unit() * 2.0 - 1.0) as f32).collect()
                },
            },
        });
    }
    quant::QuantCase { ops }
}

pub fn glide_case(data: &[u8]) -> glide::GlideCase {
    use glide::GlideOp::*;
    let mut r = Rd::new(data);
    let fs = rate(&mut r, 48_000.0);
    let mut ops = vec![];
    while r.more() && ops.len() < 60 {
        ops.push(match r.u8() % 16 {
            0 => SetTime(0.0),
            1 => SetTime((r.unit() * 2.0 / fs as f64) as f32),
            2 => SetTime((r.unit() * 6.0 / fs as f64) as f32),
            3 => SetTime((r.unit() * 0.1) as f32),
            4 => SetTime(r.unit() as f32),
            5 => SetTime((r.unit() * 10.0) as f32),
            6 | 7 => FastSwitch(r.unit() as f32),
            8 | 9 | 10 => Input(match r.u8() % 8 {
                0 => 0.0,
                1 => [10.0f32, -10.0, 1.0, -1.0, 1e-20, -1e-30, 1e-40, -0.0, 3e38, -3e38, f32::MAX, f32::MIN, 1e30, -1e30, 1e-45, -3e-45][(r.u8() % 16) as usize],
                _ => (r.unit() * 20.0 - 10.0) as f32,
            }),
            11 => InputCurrent,
            12 | 13 => Run(1 + (r.u8() % 8) as u32),
            14 => Run(1 + (r.u16() % 3000) as u32),
            _ => RunSettle,
        });
    }
    glide::GlideCase { fs, ops }
}

pub fn ribbon_case(data: &[u8]) -> ribbon::RibbonCase {
    let mut r = Rd::new(data);
    // the fuzz target keeps to sample rates up to ~20 kHz (the controller re-averages its whole window on every sample
    // and the address sanitizer multiplies that cost; the proptest generator covers all 424 rates)
    let rate_idx = if r.bool() { [0u16, 1, 2, 3, 4, 5, 6, 7, 8, 9, 16, 17, 18, 19, 20, 21][(r.u8() % 16) as usize] } else { 24 + r.u16() % 48 };
    let softpot_idx = r.u8() % 4;
    let dropper_frac = r.unit() as f32;
    let pullup_factor = (r.unit() * 1000f64.ln()).exp() as f32;
    let mut segs = vec![];
    while r.more() && segs.len() < 8 {
        let len = match r.u8() % 8 {
            0 => ribbon::RunLen::Glitch(r.u8() % 5),
            1 | 2 | 3 => ribbon::RunLen::Tap(r.unit() as f32),
            4 | 5 => ribbon::RunLen::Edge((r.u8() % 3) as i8 - 1),
            _ => ribbon::RunLen::Long((r.unit() * 3.0) as f32),
        };
        let level = r.unit() as f32;
        let level2 = if r.bool() { level } else { r.unit() as f32 };
        let noise = if r.bool() { 0.0 } else { (r.unit() * 0.2) as f32 };
        segs.push(ribbon::Seg {
            len,
            level,
            level2,
            noise,
            noise_key: r.u32(),
            gap: r.u8() % 3,
            gap_level: r.unit() as f32,
            poll_every: match r.u8() % 6 {
                0 | 1 => 0,
                2 => 1,
                3 | 4 => 2 + r.u16() % 48,
                _ => 100 + r.u16() % 1900,
            },
            alt_key: r.u32(),
            pattern: (r.u8() % 3 == 0) as u8,
            gap_edge: r.u8() % 4 == 0,
        });
    }
    let edge_ulps = if r.u8() % 3 == 0 { Some((r.u8() % 7) as i8 - 3) } else { None };
    ribbon::RibbonCase { rate_idx, softpot_idx, dropper_frac, pullup_factor, segs, edge_ulps }
}

pub fn stream_case(data: &[u8]) -> midi::StreamCase {
    let mut r = Rd::new(data);
    let channel = r.u8();
    let flags = r.u8();
    let pm = r.u16() as u64;
    let poll_mask = pm | pm << 16 | pm << 32 | pm << 48;
    let bytes = r.rest().to_vec();
    midi::StreamCase {
        channel: if flags & 0x80 != 0 { channel } else { channel % 16 },
        prio: [midi::Prio::Last, midi::Prio::High, midi::Prio::Low][(flags % 3) as usize],
        retrigger: flags & 0x40 != 0,
        poll_mask,
        bytes,
    }
}

pub fn midi_case(data: &[u8]) -> midi::MidiCase {
    use midi::MidiOp::*;
    let mut r = Rd::new(data);
    let channel = r.u8() % 20;
    let pool: Vec<u8> = (0..(1 + r.u8() % 6)).map(|_| r.u8() % 128).collect();
    let mut ops = vec![];
    let note = |r: &mut Rd| if r.u8() % 10 < 7 { pool[(r.u8() as usize) % pool.len()] } else { r.u8() % 128 };
    while r.more() && ops.len() < 200 {
        ops.push(match r.u8() % 32 {
            0..=7 => Chan { kind: 1, own: true, other: 0, d1: note(&mut r), d2: 1 + r.u8() % 127, rs: r.bool() },
            8..=12 => Chan { kind: 0, own: true, other: 0, d1: note(&mut r), d2: r.u8() % 128, rs: r.bool() },
            13..=15 => Chan { kind: 1, own: true, other: 0, d1: note(&mut r), d2: 0, rs: r.bool() },
            16 => Chan { kind: 3, own: true, other: 0, d1: 123, d2: if r.u8() % 10 == 0 { r.u8() % 128 } else { 0 }, rs: r.bool() },
            17 | 18 => Chan { kind: 3, own: true, other: 0, d1: [1u8, 7, 71, 74, 5, 65, 64, 121, 120, 2][(r.u8() % 10) as usize], d2: r.u8() % 128, rs: r.bool() },
            19 => Chan { kind: 3, own: true, other: 0, d1: r.u8() % 128, d2: r.u8() % 128, rs: r.bool() },
            20 => Chan { kind: 6, own: true, other: 0, d1: r.u8() % 128, d2: r.u8() % 128, rs: r.bool() },
            21 | 22 => Chan { kind: r.u8() % 7, own: false, other: r.u8() % 15, d1: r.u8() % 128, d2: r.u8() % 128, rs: r.bool() },
            23 => Chan { kind: [2u8, 4, 5][(r.u8() % 3) as usize], own: true, other: 0, d1: r.u8() % 128, d2: r.u8() % 128, rs: r.bool() },
            24 => {
                if r.bool() {
                    RealTime(r.u8() % 8)
                } else {
                    let own = r.bool();
                    ChanRt { kind: if own { r.u8() % 2 } else { r.u8() % 7 }, own, other: r.u8() % 15, d1: note(&mut r), d2: r.u8() % 128, rt: r.u8(), at: 1 + r.u8() % 3 }
                }
            }
            25 => SetPriority([midi::Prio::Last, midi::Prio::High, midi::Prio::Low][(r.u8() % 3) as usize]),
            26 => SetRetrigger(r.bool()),
            27 | 28 => PollRising,
            29 | 30 => PollFalling,
            _ => PollBoth,
        });
    }
    midi::MidiCase { channel, ops }
}

pub fn api_case(data: &[u8]) -> api::ApiCase {
    let mut r = Rd::new(data);
    let wild_finite = |r: &mut Rd| -> f32 {
        let x = if r.bool() { WILD[(r.u8() % 16) as usize] } else { r.f32_bits() };
        if x.is_finite() {
            x
        } else {
            0.0
        }
    };
    match r.u8() % 7 {
        0 => {
            let fs = rate(&mut r, 192_000.0);
            let mut calls = vec![];
            while r.more() && calls.len() < 200 {
                calls.push(match r.u8() % 10 {
                    0 | 1 => api::AdsrCall::GateOn,
                    2 => api::AdsrCall::GateOff,
                    3 | 4 => api::AdsrCall::Tick(r.u16() % 400),
                    5 => api::AdsrCall::Attack(adsr_time(&mut r, fs, true)),
                    6 => api::AdsrCall::Decay(adsr_time(&mut r, fs, true)),
                    7 => api::AdsrCall::Release(adsr_time(&mut r, fs, true)),
                    8 => api::AdsrCall::Sustain(sustain(&mut r, true)),
                    _ => api::AdsrCall::Value,
                });
            }
            api::ApiCase::Adsr { fs, calls }
        }
        1 => {
            let fs = rate(&mut r, 192_000.0);
            let mut calls = vec![];
            while r.more() && calls.len() < 200 {
                calls.push(match r.u8() % 8 {
                    0 | 1 => api::LfoCall::Tick(r.u16() % 400),
                    2 | 3 => api::LfoCall::FreqFrac(if r.u8() % 8 == 0 { 1.0 } else { r.unit() as f32 }),
                    4 => api::LfoCall::Phase(match r.u8() % 3 {
                        0 => (r.unit() * 2000.0 - 1000.0) as f32,
                        1 => wild_finite(&mut r),
                        _ => [0.99999994f32, -0.99999994, 1.0, -1.0, 0.5, 1.9999999, 16_777_216.0, 4_294_967_296.0, 4.3e9, -4.3e9][(r.u8() % 10) as usize],
                    }),
                    5 => api::LfoCall::Reset,
                    6 => api::LfoCall::Freq([fs, 0.0, 1e-45, f32::MIN_POSITIVE][(r.u8() % 4) as usize]),
                    _ => api::LfoCall::Get(r.u8() % 5),
                });
            }
            api::ApiCase::Lfo { fs, calls }
        }
        2 => {
            let fs = rate(&mut r, 192_000.0);
            let mut calls = vec![];
            while r.more() && calls.len() < 200 {
                calls.push(match r.u8() % 6 {
                    0 | 1 => api::GlideCall::SetTime(match r.u8() % 4 {
                        0 => (r.unit() * 10.0) as f32,
                        1 => [0.0f32, 1e30, f32::MAX, 1e-45, f32::MIN_POSITIVE, 1e-20, 10.0, 1000.0][(r.u8() % 8) as usize],
                        2 => (r.unit() * 4.0 / fs as f64) as f32,
                        _ => wild_finite(&mut r).abs(),
                    }),
                    2 => api::GlideCall::Process((r.unit() * 20.0 - 10.0) as f32),
                    3 => {
                        if r.bool() {
                            api::GlideCall::Process((r.unit() * 20.0 - 10.0) as f32)
                        } else {
                            api::GlideCall::SetTimeSamples { k: [1u8, 2, 2, 2, 3, 4, 8, 100][(r.u8() % 8) as usize], ulps: (r.u8() % 5) as i8 - 2 }
                        }
                    }
                    _ => api::GlideCall::ProcessN((r.unit() * 20.0 - 10.0) as f32, r.u16() % 500),
                });
            }
            api::ApiCase::Glide { fs, calls }
        }
        3 => {
            let mut calls = vec![];
            while r.more() && calls.len() < 200 {
                calls.push(match r.u8() % 8 {
                    0..=3 => api::QuantCall::Convert(quant_v(&mut r)),
                    4 => api::QuantCall::Allow(r.bytes(13)),
                    5 | 6 => api::QuantCall::Forbid(r.bytes(13)),
                    _ => api::QuantCall::IsAllowed(r.u8()),
                });
            }
            api::ApiCase::Quant { calls }
        }
        4 => {
            // the fuzz target keeps to the cheaper half of the rate table (the controller re-averages its whole window
            // on every sample; the proptest generator covers all rates)
            let (rate_idx, softpot_idx) = (if r.bool() { r.u16() % 24 } else { 24 + r.u16() % 200 }, r.u8() % 4);
            let dropper_frac = r.unit() as f32;
            let pullup_factor = (r.unit() * 1000f64.ln()).exp() as f32;
            let mut calls = vec![];
            while r.more() && calls.len() < 24 {
                let v = match r.u8() % 6 {
                    0 => 0.0,
                    1 => 1.0,
                    _ => r.unit() as f32,
                };
                calls.push(match r.u8() % 8 {
                    0 | 1 | 2 => api::RibbonCall::Poll(v),
                    3 | 4 => api::RibbonCall::PollN(v, r.u16() % 700),
                    5 => {
                        if r.bool() {
                            api::RibbonCall::Value
                        } else {
                            api::RibbonCall::PollNearBoundary((r.u8() % 48) as i8 - 40, r.u16() % 4000)
                        }
                    }
                    6 => api::RibbonCall::JustPressed,
                    _ => api::RibbonCall::JustReleased,
                });
            }
            api::ApiCase::Ribbon { rate_idx, softpot_idx, dropper_frac, pullup_factor, calls }
        }
        5 => {
            let channel = r.u8();
            let mut calls = vec![];
            while r.more() && calls.len() < 200 {
                calls.push(match r.u8() % 8 {
                    0..=4 => api::MidiCall::Bytes(r.bytes(24)),
                    5 => api::MidiCall::Priority(r.u8()),
                    6 => api::MidiCall::Getters,
                    _ => api::MidiCall::Edges,
                });
            }
            api::ApiCase::Midi { channel, calls }
        }
        _ => {
            let fs = rate(&mut r, 192_000.0);
            api::ApiCase::Liveness {
                fs,
                att: adsr_time(&mut r, fs, true),
                dec: adsr_time(&mut r, fs, true),
                rel: adsr_time(&mut r, fs, true),
                sus: sustain(&mut r, true),
            }
        }
    }
}

/// which oracles are armed in this fuzzing process: VFUZZ_PROP=C01 arms only C01 (default: every oracle of the target)
fn armed() -> &'static str {
    static P: OnceLock<String> = OnceLock::new();
    P.get_or_init(|| std::env::var("VFUZZ_PROP").unwrap_or_default())
}

fn mask_for(all: &[(&str, u32)]) -> u32 {
    let a = armed();
    let mut m = 0;
    for (p, bit) in all {
        if a.is_empty() || a == *p {
            m |= bit;
        }
    }
    m
}

/// decode + judge; returns the decoded case (for replay files), its engine name and the verdict
pub fn judge(target: &str, data: &[u8]) -> (Value, &'static str, Result<(), Failure>) {
    let mut st = Stats::default();
    match target {
        "midi_stream" => {
            let c = stream_case(data);
            let v = midi::run_stream(&c, &mut st).map(|_| ());
            (serde_json::to_value(&c).unwrap(), "midi_stream", v)
        }
        "midi_model" => {
            let c = midi_case(data);
            let m = mask_for(&[("C04", midi::C04), ("C05", midi::C05), ("C18", midi::C18)]);
            let v = midi::run_case(&c, m, &mut st).map(|_| ());
            (serde_json::to_value(&c).unwrap(), "midi_model", v)
        }
        "adsr_ops" => {
            let c = adsr_case(data);
            let m = mask_for(&[("C01", adsr::C01), ("C02", adsr::C02), ("C03", adsr::C03)]);
            let v = adsr::run_case(&c, m, 20_000, &mut st).map(|_| ());
            (serde_json::to_value(&c).unwrap(), "adsr_history", v)
        }
        "quant_ops" => {
            let c = quant_case(data);
            let m = mask_for(&[("C07", quant::C07), ("C09", quant::C09), ("C19", quant::C19)]);
            let mut v = quant::run_case(&c, m, &mut st).map(|_| ());
            if v.is_ok() && (armed().is_empty() || armed() == "C08") {
                // history-free conversions of the same inputs under a scale derived from the data
                let mask = 1 + (fnv(data) % 4095) as u16;
                for op in &c.ops {
                    if let quant::QuantOp::Convert(x) = op {
                        if let Err(f) = quant::check_fresh(mask, *x, true, false, &mut st) {
                            let case = f.data.clone();
                            return (case, "quant_fresh", Err(f));
                        }
                    }
                }
            }
            if armed() == "C08" {
                v = Ok(());
            }
            (serde_json::to_value(&c).unwrap(), "quant_history", v)
        }
        "glide_ops" => {
            let c = glide_case(data);
            let v = glide::run_c13(&c, 20_000, &mut st).map(|_| ());
            (serde_json::to_value(&c).unwrap(), "glide_c13", v)
        }
        "ribbon_ops" => {
            let c = ribbon_case(data);
            let m = mask_for(&[("C15", ribbon::C15), ("C16", ribbon::C16)]);
            let v = ribbon::run_case(&c, m, &mut st).map(|_| ());
            (serde_json::to_value(&c).unwrap(), "ribbon_history", v)
        }
        "api_any" => {
            let c = api_case(data);
            let v = api::run_case(&c, &mut st).map(|_| ());
            (serde_json::to_value(&c).unwrap(), "api_any", v)
        }
        _ => (Value::Null, "unknown", Err(Failure::new("unknown_target", 0, target.to_string()))),
    }
}

/// entry point of every libFuzzer target: a violated oracle aborts the process with the property and rule in the
/// message (libFuzzer then saves the input as a crash artifact, which `vcheck` re-decodes and re-judges in-process).
pub fn fuzz_entry(target: &str, data: &[u8]) {
    let (_, _, verdict) = judge(target, data);
    if let Err(f) = verdict {
        panic!("ORACLE VIOLATION rule={} step={} {}", f.rule, f.step, f.detail);
    }
}
