//! Ribbon controller: C15 (a press needs an uninterrupted capture time), C16 (position = average of the current
//! press only).

use crate::common::*;
use serde::{Deserialize, Serialize};
use synth_utils::ribbon_controller::{sample_rate_to_capacity, RibbonController};

pub const C15: u32 = 1;
pub const C16: u32 = 2;

pub trait Rib {
    fn poll(&mut self, v: f32);
    fn value(&self) -> f32;
    fn pressing(&self) -> bool;
    fn just_pressed(&mut self) -> bool;
    fn just_released(&mut self) -> bool;
}

impl<const N: usize> Rib for RibbonController<N> {
    fn poll(&mut self, v: f32) {
        RibbonController::poll(self, v)
    }
    fn value(&self) -> f32 {
        RibbonController::value(self)
    }
    fn pressing(&self) -> bool {
        self.finger_is_pressing()
    }
    fn just_pressed(&mut self) -> bool {
        self.finger_just_pressed()
    }
    fn just_released(&mut self) -> bool {
        self.finger_just_released()
    }
}

pub use crate::ribbon_rates::{make, RATES};

pub const SOFTPOTS: [f32; 4] = [5_000.0, 10_000.0, 20_000.0, 100_000.0];

#[derive(Debug, Clone, Serialize, Deserialize, PartialEq)]
pub enum RunLen {
    /// 1..=5 samples
    Glitch(u8),
    /// fraction of the capture length, strictly shorter than it
    Tap(f32),
    /// capture length + d, d in -1..=1
    Edge(i8),
    /// capture length + mult * capacity (the ring buffer wraps within the press)
    Long(f32),
    /// a very long unbroken press: lengths around the points where 16-bit sample counters would wrap
    Huge(u8),
}

#[derive(Debug, Clone, Serialize, Deserialize, PartialEq)]
pub struct Seg {
    pub len: RunLen,
    /// level as a fraction of the in-range interval [0, boundary - margin]
    pub level: f32,
    /// second level (ramp target), same units
    pub level2: f32,
    /// noise amplitude as a fraction of the interval, and its stream parameter
    pub noise: f32,
    pub noise_key: u32,
    /// out-of-range samples after the run (1..=3) and their level as a fraction of [boundary + margin, 1]
    pub gap: u8,
    pub gap_level: f32,
    /// poll the two edge getters every `poll_every` samples (0 = only at the end of the segment)
    pub poll_every: u16,
    /// alternative in-range samples used by the metamorphic re-runs (stream parameter)
    pub alt_key: u32,
    /// 0 = ramp level -> level2 with noise; 1 = A-B-A steps (level, level2 for a stretch whose length comes from
    /// noise_key, level again) with bit-identical samples inside each stretch
    #[serde(default)]
    pub pattern: u8,
    /// the gap samples sit at the case's near-boundary value (`RibbonCase::edge_ulps`) instead of clearly outside
    #[serde(default)]
    pub gap_edge: bool,
}

#[derive(Debug, Clone, Serialize, Deserialize, PartialEq)]
pub struct RibbonCase {
    pub rate_idx: u16,
    pub softpot_idx: u8,
    /// dropper = 100 + frac * (softpot/5 - 100)
    pub dropper_frac: f32,
    /// pull-up = factor * (softpot + dropper), factor in [1, 1000]
    pub pullup_factor: f32,
    pub segs: Vec<Seg>,
    /// Some(k): the gaps marked `gap_edge` use the single value k f32 steps (|k| <= 3) away from the documented boundary
    /// 1 - dropper/(dropper+softpot). Whether that value is in range is left to the controller (its threshold may be
    /// rounded differently), but it has to be one or the other for the whole history. C15-only runs.
    #[serde(default)]
    pub edge_ulps: Option<i8>,
}

pub struct Config {
    pub fs: u32,
    pub sp: f32,
    pub dr: f32,
    pub pu: f32,
    pub cap: usize,
    pub ign: usize,
    pub disc: usize,
    pub boundary: f64,
    pub ec: f64,
}

pub fn config(case: &RibbonCase) -> Config {
    let idx = case.rate_idx as usize % RATES.len();
    let fs = RATES[idx];
    let sp = SOFTPOTS[case.softpot_idx as usize % 4];
    let dr = 100.0 + case.dropper_frac.clamp(0.0, 1.0) * (sp / 5.0 - 100.0);
    let pu = case.pullup_factor.clamp(1.0, 1000.0) * (sp + dr);
    let cap = sample_rate_to_capacity(fs);
    Config {
        fs,
        sp,
        dr,
        pu,
        cap,
        ign: (fs as u64 * 1000 / 1_000_000) as usize,
        disc: (fs as u64 * 2000 / 1_000_000) as usize,
        boundary: 1.0 - (dr as f64 / (dr as f64 + sp as f64)),
        ec: (sp as f64 + dr as f64) / pu as f64,
    }
}

/// deterministic pseudo-noise in [-1,1]: a pure function of the generated key and the sample index
fn noise(key: u32, i: u64) -> f64 {
    (splitmix((key as u64) << 32 ^ i) >> 11) as f64 / (1u64 << 52) as f64 - 1.0
}

pub struct CaseInfo {
    pub nontrivial: bool,
}

/// measure the run length at which a fresh controller first reports a press under a constant in-range input
pub fn measure_capture_len(case: &RibbonCase, cfg: &Config) -> Option<usize> {
    let (mut r, _) = make(case.rate_idx as usize, cfg.sp, cfg.dr, cfg.pu);
    let v = (0.5 * cfg.boundary) as f32;
    for i in 1..=(2 * cfg.cap + 2 * cfg.ign + 8) {
        r.poll(v);
        if r.pressing() {
            return Some(i);
        }
    }
    None
}

/// reference value in f64 from the samples of the current run
fn reference_value(cfg: &Config, lstar: usize, run: &[f32]) -> (f64, f64, f64) {
    let skipped = lstar - cfg.cap;
    let written = &run[skipped..];
    let buf = &written[written.len() - cfg.cap..];
    let win = &buf[..cfg.cap - cfg.disc];
    let mut sum = 0.0f64;
    let mut mn = f64::INFINITY;
    let mut mx = f64::NEG_INFINITY;
    for &x in win {
        sum += x as f64;
        mn = mn.min(x as f64);
        mx = mx.max(x as f64);
    }
    let m = sum / win.len() as f64;
    let corr = |x: f64| (x - (x - x * x) * cfg.ec) / cfg.boundary;
    (corr(m), corr(mn), corr(mx))
}

fn seg_len(len: &RunLen, lstar: usize, cap: usize) -> usize {
    match len {
        RunLen::Glitch(k) => 1 + (*k as usize % 5),
        RunLen::Tap(f) => {
            let f = f.clamp(0.0, 0.999_999) as f64;
            (1 + (f * (lstar.saturating_sub(1)) as f64) as usize).min(lstar.saturating_sub(1)).max(1)
        }
        RunLen::Edge(d) => (lstar as i64 + (*d as i64).clamp(-1, 1)).max(1) as usize,
        RunLen::Long(m) => lstar + (m.clamp(0.0, 3.0) as f64 * cap as f64) as usize,
        RunLen::Huge(k) => [65_535usize, 65_536, 65_537, 66_000, 70_000, 131_073][(*k % 6) as usize].max(lstar + 1),
    }
}

fn seg_sample(cfg: &Config, s: &Seg, i: usize, n: usize, key: u32, use_alt: bool) -> f32 {
    let top = cfg.boundary - 1e-3;
    if use_alt {
        let u = 0.5 * (noise(key, i as u64) + 1.0);
        return (u * top).clamp(0.0, top) as f32;
    }
    let a = s.level.clamp(0.0, 1.0) as f64;
    let b = s.level2.clamp(0.0, 1.0) as f64;
    if s.pattern == 1 {
        let start = n / 3;
        let blen = 1 + (s.noise_key as usize) % (n / 2).max(1);
        let lvl = if i >= start && i < start + blen { b } else { a };
        return ((lvl * top) as f32).clamp(0.0, top as f32);
    }
    let t = if n > 1 { i as f64 / (n - 1) as f64 } else { 0.0 };
    let base = a + (b - a) * t;
    let v = (base + s.noise.clamp(0.0, 1.0) as f64 * noise(s.noise_key, i as u64)) * top;
    v.clamp(0.0, top) as f32
}

#[derive(Clone, Copy, PartialEq)]
enum Variant {
    /// the case as generated
    Plain,
    /// all runs before `seg` use alternative in-range samples
    EarlierReplaced(usize),
}

struct PollRec {
    seg: usize,
    pressed: bool,
    value_bits: u32,
}

/// execute the case (optionally a metamorphic variant); oracles are armed only for the plain run
/// the near-boundary gap value of a case (only in runs that do not judge C16)
pub fn edge_value(case: &RibbonCase, cfg: &Config, mask: u32) -> Option<f32> {
    if mask & C16 != 0 || !case.segs.iter().any(|s| s.gap_edge) {
        return None;
    }
    case.edge_ulps.map(|k| {
        let b = 1.0f32 - (cfg.dr / (cfg.dr + cfg.sp));
        f32::from_bits((b.to_bits() as i64 + (k.clamp(-3, 3)) as i64) as u32)
    })
}

fn execute(case: &RibbonCase, cfg: &Config, lstar: usize, mask: u32, variant: Variant, edge: Option<(f32, bool)>, stats: &mut Stats, rec: &mut Vec<PollRec>) -> Result<(bool, bool), Failure> {
    let (mut r, _) = make(case.rate_idx as usize, cfg.sp, cfg.dr, cfg.pu);
    let edge_val = edge.map(|e| e.0);
    let edge_in = edge.map(|e| e.1).unwrap_or(false);
    let plain = variant == Variant::Plain;
    let mut m_pressing = false;
    let mut m_just_pressed = false;
    let mut m_just_released = false;
    let mut retained: u32 = r.value().to_bits();
    let mut run: Vec<f32> = Vec::new();
    let mut presses = 0u32;
    let mut short_run_before_another = false;
    let mut any_short = false;
    let mut prev_level: Option<f64> = None;
    let mut nt16 = false;
    let mut samples = 0u64;
    let tol = 1e-5 + cfg.cap as f64 / 8_388_608.0;

    for (si, s) in case.segs.iter().enumerate() {
        let n = seg_len(&s.len, lstar, cfg.cap);
        if any_short {
            short_run_before_another = true;
        }
        let use_alt = match variant {
            Variant::EarlierReplaced(j) => si < j,
            Variant::Plain => false,
        };
        for i in 0..n {
            let v = seg_sample(cfg, s, i, n, s.alt_key, use_alt);
            r.poll(v);
            samples += 1;
            run.push(v);
            let expect = run.len() >= lstar;
            if expect && !m_pressing {
                m_pressing = true;
                m_just_pressed = true;
                presses += 1;
            }
            let real = r.pressing();
            if plain && mask & C15 != 0 && real != expect {
                return Err(Failure::new(
                    "C15.press_needs_unbroken_capture",
                    si,
                    format!(
                        "fs = {} (capacity {}, settling {}): finger_is_pressing() = {} after an unbroken run of {} in-range samples (segment {}), a press needs {} - earlier runs must not count",
                        cfg.fs, cfg.cap, cfg.ign, real, run.len(), si, lstar
                    ),
                ));
            }
            if real {
                let val = r.value();
                rec.push(PollRec { seg: si, pressed: true, value_bits: val.to_bits() });
                retained = val.to_bits();
                // the reference is evaluated on the first and last pressed samples of the run and on a stride in between
                // (the real controller recomputes its average on every sample anyway)
                let since = run.len().saturating_sub(lstar);
                let stride = (n.saturating_sub(lstar) / 48).max(1);
                let check_now = since < 3 || since % stride == 0 || i + 3 >= n;
                if plain && mask & C16 != 0 && expect && check_now {
                    let (want, lo, hi) = reference_value(cfg, lstar, &run);
                    let e = (val as f64 - want).abs();
                    stats.ratio("value_error/tolerance", e / tol);
                    if !(e <= tol) {
                        return Err(Failure::new(
                            "C16.window_average",
                            si,
                            format!(
                                "fs = {} (capacity {}, discard {}), segment {}, run length {}: value() = {}, the corrected average of the capture window is {:.7} (error {:e} > {:e})",
                                cfg.fs, cfg.cap, cfg.disc, si, run.len(), val, want, e, tol
                            ),
                        ));
                    }
                    if !(val >= 0.0 && val as f64 <= 1.0 + 1.2e-7) {
                        return Err(Failure::new("C16.range", si, format!("value() = {} outside [0,1]", val)));
                    }
                    if !(val as f64 >= lo - tol && val as f64 <= hi + tol) {
                        return Err(Failure::new(
                            "C16.between_min_max",
                            si,
                            format!("value() = {} outside the corrected min/max [{:.7}, {:.7}] of the contributing samples", val, lo, hi),
                        ));
                    }
                    stats.count("pressed_value_checks", 1);
                    if run.len() >= lstar + cfg.cap {
                        if let Some(p) = prev_level {
                            if (p - s.level as f64).abs() > 0.1 {
                                nt16 = true;
                            }
                        }
                    }
                }
            } else {
                let val = r.value().to_bits();
                rec.push(PollRec { seg: si, pressed: false, value_bits: val });
                if plain && mask & C16 != 0 && val != retained {
                    return Err(Failure::new(
                        "C16.retained",
                        si,
                        format!(
                            "no press is reported (segment {}, run length {}), value() changed from {} to {}",
                            si,
                            run.len(),
                            f32::from_bits(retained),
                            f32::from_bits(val)
                        ),
                    ));
                }
            }
            if s.poll_every > 0 && (i + 1) % s.poll_every as usize == 0 {
                edge_polls(&mut *r, plain && mask & C15 != 0, &mut m_just_pressed, &mut m_just_released, si, stats)?;
            }
        }
        if n < lstar {
            any_short = true;
            if n >= lstar / 2 {
                stats.count("label.tap_at_least_half_capture_len", 1);
            }
            if n <= 5 {
                stats.count("label.glitch", 1);
            }
        }
        prev_level = Some(s.level as f64);
        // the gap: out-of-range samples
        let g = 1 + (s.gap % 3) as usize;
        let at_edge = s.gap_edge && edge_val.is_some();
        for _ in 0..g {
            let lo = cfg.boundary + 1e-3;
            let v = if at_edge { edge_val.unwrap_or(1.0) } else { (lo + s.gap_level.clamp(0.0, 1.0) as f64 * (1.0 - lo)).min(1.0) as f32 };
            r.poll(v);
            samples += 1;
            if at_edge && edge_in {
                // candidate reading: the controller's threshold lies above this value, it is one more in-range sample
                run.push(v);
                let expect = run.len() >= lstar;
                if expect && !m_pressing {
                    m_pressing = true;
                    m_just_pressed = true;
                    presses += 1;
                }
                let real = r.pressing();
                if plain && mask & C15 != 0 && real != expect {
                    return Err(Failure::new(
                        "C15.press_needs_unbroken_capture",
                        si,
                        format!("finger_is_pressing() = {} after an unbroken run of {} samples (segment {}, a press needs {})", real, run.len(), si, lstar),
                    ));
                }
                continue;
            }
            if m_pressing {
                m_pressing = false;
                m_just_released = true;
            }
            run.clear();
            let real = r.pressing();
            if plain && mask & C15 != 0 && real {
                return Err(Failure::new(
                    "C15.release_on_first_out_of_range",
                    si,
                    format!("finger_is_pressing() still true after an out-of-range sample ({}) in segment {}", v, si),
                ));
            }
            let val = r.value().to_bits();
            if plain && mask & C16 != 0 && val != retained {
                return Err(Failure::new(
                    "C16.retained",
                    si,
                    format!("finger lifted (segment {}): value() changed from {} to {}", si, f32::from_bits(retained), f32::from_bits(val)),
                ));
            }
        }
        edge_polls(&mut *r, plain && mask & C15 != 0, &mut m_just_pressed, &mut m_just_released, si, stats)?;
    }
    if plain {
        stats.count("samples", samples);
        stats.count("presses_reported", presses as u64);
    }
    let nt15 = short_run_before_another && presses >= 1 && case.segs.len() >= 2;
    Ok((nt15, nt16))
}

fn edge_polls(r: &mut dyn Rib, armed: bool, mp: &mut bool, mr: &mut bool, si: usize, stats: &mut Stats) -> Result<(), Failure> {
    let p = r.just_pressed();
    let q = r.just_released();
    let (ep, eq) = (std::mem::replace(mp, false), std::mem::replace(mr, false));
    if armed {
        stats.count("edge_polls", 2);
        if p != ep {
            return Err(Failure::new(
                "C15.just_pressed",
                si,
                format!("finger_just_pressed() = {}, expected {} (segment {})", p, ep, si),
            ));
        }
        if q != eq {
            return Err(Failure::new(
                "C15.just_released",
                si,
                format!("finger_just_released() = {}, expected {} (segment {})", q, eq, si),
            ));
        }
    }
    Ok(())
}

pub fn run_case(case: &RibbonCase, mask: u32, stats: &mut Stats) -> Result<CaseInfo, Failure> {
    let cfg = config(case);
    let lstar = match measure_capture_len(case, &cfg) {
        Some(l) => l,
        None => {
            return Err(Failure::new(
                "C15.press_is_reported",
                0,
                format!("fs = {}: a fresh controller never reports a press under a constant in-range input ({} samples tried)", cfg.fs, 2 * cfg.cap + 2 * cfg.ign + 8),
            ))
        }
    };
    let a = cfg.cap + cfg.ign.saturating_sub(1);
    let b = cfg.cap + cfg.ign;
    if mask & C15 != 0 && lstar != a && lstar != b {
        return Err(Failure::new(
            "C15.capture_time",
            0,
            format!(
                "fs = {}: a fresh controller reports the press after {} in-range samples; the capture buffer ({}) after the settling samples ({}) needs {} or {}",
                cfg.fs, lstar, cfg.cap, cfg.ign, a, b
            ),
        ));
    }
    if lstar < cfg.cap {
        // cannot build the reference window; C15 would have fired above
        return Ok(CaseInfo { nontrivial: false });
    }
    let mut rec = vec![];
    let ev = edge_value(case, &cfg, mask);
    let (nt15, nt16) = match execute(case, &cfg, lstar, mask, Variant::Plain, ev.map(|v| (v, false)), stats, &mut rec) {
        Ok(x) => x,
        Err(mut f) => match ev {
            // a value within 3 f32 steps of the documented boundary may legitimately fall on either side of the
            // controller's own (rounded) threshold - but it has to be on one side: second candidate reading
            Some(ev) => {
                let mut scratch = Stats::default();
                let mut rec2 = vec![];
                match execute(case, &cfg, lstar, mask, Variant::Plain, Some((ev, true)), &mut scratch, &mut rec2) {
                    Ok(x) => {
                        stats.count("label.edge_value_consistently_in_range", 1);
                        x
                    }
                    Err(f2) => {
                        f.detail = format!(
                            "{} [the gap value {:e} ({} f32 steps from 1 - dropper/(dropper+softpot), softpot {} dropper {}) was read as out-of-range (this report) and as in-range ({} at segment {}: {}): the controller's behaviour matches neither reading]",
                            f.detail, ev, case.edge_ulps.unwrap_or(0), cfg.sp, cfg.dr, f2.rule, f2.step, f2.detail
                        );
                        return Err(f);
                    }
                }
            }
            None => return Err(f),
        },
    };
    if ev.is_some() {
        stats.count("label.gap_within_3_ulps_of_boundary", 1);
    }
    if mask & C16 != 0 && case.segs.len() >= 2 {
        // metamorphic (a): replace every sample of the runs before the last pressed segment
        if let Some(j) = rec.iter().rev().find(|p| p.pressed).map(|p| p.seg) {
            if j >= 1 {
                let mut rec2 = vec![];
                let mut scratch = Stats::default();
                execute(case, &cfg, lstar, 0, Variant::EarlierReplaced(j), None, &mut scratch, &mut rec2)?;
                // compare every poll of segment j onwards
                let a: Vec<&PollRec> = rec.iter().filter(|p| p.seg >= j && p.pressed).collect();
                let b: Vec<&PollRec> = rec2.iter().filter(|p| p.seg >= j && p.pressed).collect();
                stats.count("metamorphic_earlier_runs_replaced", 1);
                if a.len() != b.len() {
                    return Err(Failure::new(
                        "C16.independent_of_earlier_presses",
                        j,
                        format!("replacing the samples of the runs before segment {} changed the number of pressed polls from {} to {}", j, a.len(), b.len()),
                    ));
                }
                for (x, y) in a.iter().zip(b.iter()) {
                    if x.value_bits != y.value_bits {
                        return Err(Failure::new(
                            "C16.independent_of_earlier_presses",
                            j,
                            format!(
                                "fs = {}: replacing the samples of the runs before segment {} changed value() during that press from {} to {}",
                                cfg.fs,
                                j,
                                f32::from_bits(x.value_bits),
                                f32::from_bits(y.value_bits)
                            ),
                        ));
                    }
                }
            }
        }
    }
    Ok(CaseInfo { nontrivial: (mask & C15 != 0 && nt15) || (mask & C16 != 0 && nt16) })
}

/// Metamorphic checks (b) and (c) of C16 on a single long press: the newest `discard` samples do not matter;
/// increasing one contributing sample never decreases the value.
#[derive(Debug, Clone, Serialize, Deserialize, PartialEq)]
pub struct PerturbCase {
    pub base: RibbonCase,
    /// extra samples beyond the capture length (so the ring buffer may wrap), as a fraction of the capacity (0..2)
    pub extra: f32,
    /// which contributing sample to raise (fraction of the window) and by how much (fraction of the head-room)
    pub which: f32,
    pub raise: f32,
    pub newest_key: u32,
}

pub fn run_perturb(pc: &PerturbCase, stats: &mut Stats) -> Result<CaseInfo, Failure> {
    let case = &pc.base;
    let cfg = config(case);
    let lstar = match measure_capture_len(case, &cfg) {
        Some(l) if l >= cfg.cap => l,
        _ => return Ok(CaseInfo { nontrivial: false }),
    };
    let s = match case.segs.first() {
        Some(s) => s,
        None => return Ok(CaseInfo { nontrivial: false }),
    };
    let n = lstar + (pc.extra.clamp(0.0, 2.0) as f64 * cfg.cap as f64) as usize;
    let samples: Vec<f32> = (0..n).map(|i| seg_sample(&cfg, s, i, n, 0, false)).collect();
    let feed = |xs: &[f32]| -> (bool, f32) {
        let (mut r, _) = make(case.rate_idx as usize, cfg.sp, cfg.dr, cfg.pu);
        for &x in xs {
            r.poll(x);
        }
        (r.pressing(), r.value())
    };
    let (p0, v0) = feed(&samples);
    if !p0 {
        return Ok(CaseInfo { nontrivial: false });
    }
    // (b) newest `disc` samples replaced
    if cfg.disc > 0 {
        let mut alt = samples.clone();
        let top = cfg.boundary - 1e-3;
        for k in 0..cfg.disc {
            let i = n - 1 - k;
            alt[i] = ((0.5 * (noise(pc.newest_key, k as u64) + 1.0)) * top) as f32;
        }
        let (p1, v1) = feed(&alt);
        stats.count("metamorphic_newest_replaced", 1);
        if !p1 || v1.to_bits() != v0.to_bits() {
            return Err(Failure::new(
                "C16.excludes_newest",
                0,
                format!(
                    "fs = {} (capacity {}, discard {}): replacing the newest {} samples of a press of {} samples changed value() from {} to {}",
                    cfg.fs, cfg.cap, cfg.disc, cfg.disc, n, v0, v1
                ),
            ));
        }
    }
    // (c) raise one contributing sample
    let win = cfg.cap - cfg.disc;
    let first = n - cfg.cap; // index (in the run) of the oldest buffered sample
    let k = first + ((pc.which.clamp(0.0, 0.999_999) as f64) * win as f64) as usize;
    let mut up = samples.clone();
    let top = (cfg.boundary - 1e-3) as f32;
    let raised = up[k] + pc.raise.clamp(0.0, 1.0) * (top - up[k]);
    up[k] = raised.min(top);
    let (p2, v2) = feed(&up);
    stats.count("metamorphic_sample_raised", 1);
    let slack = 2.0 * ulp32(v0.abs().max(1e-3));
    if !p2 || (v2 as f64) < v0 as f64 - slack {
        return Err(Failure::new(
            "C16.monotone_in_samples",
            0,
            format!(
                "fs = {}: raising contributing sample {} of a press of {} samples from {} to {} lowered value() from {} to {}",
                cfg.fs, k, n, samples[k], up[k], v0, v2
            ),
        ));
    }
    if up[k] > samples[k] + 0.05 * top && win <= 64 && !(v2 > v0) {
        // with a small window a clearly larger contributing sample must be visible
        return Err(Failure::new(
            "C16.contributing_sample_counts",
            0,
            format!(
                "fs = {} (window {} samples): raising contributing sample {} from {} to {} did not change value() = {}",
                cfg.fs, win, k, samples[k], up[k], v0
            ),
        ));
    }
    Ok(CaseInfo { nontrivial: n >= lstar + 1 })
}
