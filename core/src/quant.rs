//! Quantizer: C07 (never a forbidden note), C08 (nearest allowed note, same rule in every octave),
//! C09 (hysteresis window / history-free outside), C19 (result record consistency).

use crate::common::*;
use serde::{Deserialize, Serialize};
use synth_utils::quantizer::{Conversion, Note, Quantizer};

pub const C07: u32 = 1;
pub const C09: u32 = 2;
pub const C19: u32 = 4;

/// tie tolerance: the quantizer works on a microvolt grid with an 83333 uV semitone
pub const TAU: f64 = 10e-6;
pub const SEMI: f64 = 1.0 / 12.0;
pub const HYST: f64 = SEMI * 0.1;

#[derive(Debug, Clone, Serialize, Deserialize, PartialEq)]
pub enum QuantOp {
    Allow(Vec<u8>),
    Forbid(Vec<u8>),
    /// forbid the pitch class of the note returned by the previous conversion (plus `extra`, listed first)
    ForbidLast(Vec<u8>),
    /// one forbid call naming all twelve pitch classes (rotated by `rot`) with the class of the previously returned
    /// note LAST: the would-empty rule must keep exactly that class allowed
    ForbidAllLast(u8),
    Convert(f32),
    ConvertSame,
    ConvertNudge(f32),
    /// n scale edits in a row without a conversion in between: forbid([note]), allow([note]), forbid, ... (alternating)
    EditBurst { note: u8, n: u16 },
    /// n conversions start, start+step, ...
    Ramp { start: f32, step: f32, n: u8 },
    /// conversions at boundary k/12 + amp*H*off for every off in offs (off in [-1,1])
    Noise { k: u8, amp: f32, offs: Vec<f32> },
}

#[derive(Debug, Clone, Serialize, Deserialize, PartialEq)]
pub struct QuantCase {
    pub ops: Vec<QuantOp>,
}

pub fn clampv(v: f32) -> f64 {
    if v.is_nan() {
        0.0 // NaN.max(0).min(10) = 0 in the implementation; NaN inputs are only checked differentially / for C17
    } else {
        (v as f64).clamp(0.0, 10.0)
    }
}

/// is note r acceptable for a history-free conversion of v (already clamped, in volts) under `mask`
pub fn accepts(mask: u16, v: f64, r: u8) -> bool {
    let class = (r % 12) as u16;
    if mask >> class & 1 == 0 {
        return false;
    }
    let d = v - r as f64 / 12.0;
    if d >= -TAU && d <= SEMI + TAU {
        return true;
    }
    // is there an allowed note clearly inside the below-window? then it must win
    let mut best = f64::INFINITY;
    for k in 0..=143u32 {
        if mask >> (k % 12) & 1 == 1 {
            let dk = v - k as f64 / 12.0;
            if dk >= TAU && dk <= SEMI - TAU {
                return false;
            }
            best = best.min(dk.abs());
        }
    }
    d.abs() <= best + TAU
}

/// the reference's own pick (for messages): in-window note or the nearest (lowest on ties)
pub fn reference_note(mask: u16, v: f64) -> u8 {
    let mut best = (f64::INFINITY, 0u8);
    for k in 0..=143u32 {
        if mask >> (k % 12) & 1 == 1 {
            let dk = v - k as f64 / 12.0;
            if dk >= 0.0 && dk <= SEMI {
                return k as u8;
            }
            if dk.abs() < best.0 {
                best = (dk.abs(), k as u8);
            }
        }
    }
    best.1
}

pub fn fresh_with_mask(mask: u16) -> Quantizer {
    let mut q = Quantizer::new();
    let forbid: Vec<Note> = (0..12u8).filter(|n| mask >> n & 1 == 0).map(Note::from).collect();
    if !forbid.is_empty() {
        q.forbid(&forbid);
    }
    q
}

/// the same scale configured in one of four different ways (no conversion involved): "any scale" must not depend on
/// how it was built. 0: one forbid of the complement; 1: one forbid naming all twelve classes with the lowest class of
/// the scale last (the would-empty rule keeps it), then one allow of the rest; 2: the complement forbidden one class at a
/// time; 3: forbid-all with the highest class last, then the others allowed one at a time; 4 / 5: as 1 / 3 but the class
/// that is to survive is forbidden beforehand, so that the would-empty rule re-allows a class that was NOT allowed.
pub fn build_with_mask(mask: u16, variant: u8) -> Quantizer {
    let notes = mask_notes(mask);
    let comp: Vec<u8> = (0..12u8).filter(|n| mask >> n & 1 == 0).collect();
    let mut q = Quantizer::new();
    match variant % 6 {
        0 => return fresh_with_mask(mask),
        1 | 3 | 4 | 5 => {
            let keep = if variant % 6 == 1 || variant % 6 == 4 { notes[0] } else { *notes.last().unwrap() };
            if variant % 6 >= 4 {
                q.forbid(&[Note::from(keep)]);
            }
            let mut all: Vec<Note> = (0..12u8).filter(|n| *n != keep).map(Note::from).collect();
            all.push(Note::from(keep));
            q.forbid(&all);
            let rest: Vec<Note> = notes.iter().filter(|n| **n != keep).map(|n| Note::from(*n)).collect();
            if variant % 6 == 1 || variant % 6 == 4 {
                if !rest.is_empty() {
                    q.allow(&rest);
                }
            } else {
                for n in rest {
                    q.allow(&[n]);
                }
            }
        }
        _ => {
            for n in comp {
                q.forbid(&[Note::from(n)]);
            }
        }
    }
    q
}

pub fn mask_notes(mask: u16) -> Vec<u8> {
    (0..12u8).filter(|n| mask >> n & 1 == 1).collect()
}

/// C19 clauses that hold for every conversion (history or not)
pub fn check_record(v: f32, c: &Conversion, step: usize, stats: &mut Stats) -> Result<(), Failure> {
    let expect_stair = c.note_num as f32 / 12.0;
    if c.stairstep.to_bits() != expect_stair.to_bits() {
        return Err(Failure::new(
            "C19.stairstep",
            step,
            format!("convert({:e}): note {} but stairstep {} (expected {})", v, c.note_num, c.stairstep, expect_stair),
        ));
    }
    if v.is_nan() {
        return Ok(());
    }
    let sum = c.stairstep as f64 + c.fraction as f64;
    let cl = clampv(v);
    let inside = v >= 0.0 && v <= 10.0;
    let tol_at = |target: f64| 2.0 * ulp32((target.abs().max(c.stairstep.abs() as f64)) as f32);
    let err_clamped = (sum - cl).abs();
    let ok_clamped = err_clamped <= tol_at(cl);
    // outside [0,10] the record may reproduce the input itself; for an infinite input that means the same infinity
    let ok_raw = if v.is_infinite() { sum == v as f64 } else { (sum - v as f64).abs() <= tol_at(v as f64) };
    if inside {
        stats.ratio("reconstruction_error/2ulp", err_clamped / tol_at(cl));
    }
    if !(ok_clamped || (!inside && ok_raw)) {
        return Err(Failure::new(
            "C19.reconstruct",
            step,
            format!(
                "convert({:e}): stairstep {} + fraction {} = {} does not reproduce the input{} (error {:e}, allowed {:e})",
                v,
                c.stairstep,
                c.fraction,
                sum,
                if inside { "" } else { " or its clamped value" },
                err_clamped,
                tol_at(cl)
            ),
        ));
    }
    Ok(())
}

/// history-free conversion: C08 oracle (+ the fresh clauses of C19 when `c19` is set)
pub fn check_fresh(mask: u16, v: f32, c08: bool, c19: bool, stats: &mut Stats) -> Result<u8, Failure> {
    check_fresh_built(mask, 0, v, c08, c19, stats)
}

/// as `check_fresh`, with the scale configured in the way selected by `variant` (see `build_with_mask`)
pub fn check_fresh_built(mask: u16, variant: u8, v: f32, c08: bool, c19: bool, stats: &mut Stats) -> Result<u8, Failure> {
    let mut q = build_with_mask(mask, variant);
    let c = q.convert(v);
    let cl = clampv(v);
    if c08 && !v.is_nan() {
        if !accepts(mask, cl, c.note_num) {
            return Err(Failure::new(
                "C08.nearest",
                0,
                format!(
                    "scale {:?} (configured in way {}): convert({}) -> note {} ({:.6} V, distance {:.6}); the rule gives note {} ({:.6} V, distance {:.6})",
                    mask_notes(mask),
                    variant % 6,
                    v,
                    c.note_num,
                    c.note_num as f64 / 12.0,
                    (cl - c.note_num as f64 / 12.0).abs(),
                    reference_note(mask, cl),
                    reference_note(mask, cl) as f64 / 12.0,
                    (cl - reference_note(mask, cl) as f64 / 12.0).abs()
                ),
            )
            .with(serde_json::json!({"scale_mask": mask, "v_bits": v.to_bits(), "v": v as f64, "build_variant": variant})));
        }
    }
    if c19 {
        check_record(v, &c, 0, stats)?;
        if mask == 0xfff && !v.is_nan() {
            let f = c.fraction as f64;
            // chromatic scale without history: fraction in [0, 1) semitone (10 uV grid tolerance)
            if !(f >= -TAU && f < SEMI + TAU) {
                return Err(Failure::new(
                    "C19.chromatic_fraction",
                    0,
                    format!("chromatic convert({}) -> note {} fraction {} V = {} semitones, outside [0,1)", v, c.note_num, f, f * 12.0),
                ));
            }
            stats.ratio("chromatic_fraction_semitones", f * 12.0);
        }
    }
    Ok(c.note_num)
}

pub struct CaseInfo {
    pub nontrivial: bool,
}

pub fn run_case(case: &QuantCase, mask: u32, stats: &mut Stats) -> Result<CaseInfo, Failure> {
    let mut q = Quantizer::new();
    let mut scale: u16 = 0xfff;
    let mut last_note: Option<u8> = None;
    let mut last_v: f32 = 0.0;
    // for the monotone derived check: previous (input, note) since the last scale edit
    let mut prev_mono: Option<(f32, u8)> = None;
    let mut mono_armed = false;
    let mut edited_since_convert = false;
    let mut forbidden_last_class = false;

    let mut nt7 = false;
    let mut window_decided_upper_octave = false;
    let mut left_window = false;
    let mut nt19 = false;
    let mut conversions = 0u64;

    // expand ops into primitive steps
    for (step, op) in case.ops.iter().enumerate() {
        let mut inputs: Vec<f32> = vec![];
        let mut noise_run: Option<(u8, f32)> = None;
        match op {
            QuantOp::Allow(list) => {
                let notes: Vec<Note> = list.iter().map(|n| Note::from(*n)).collect();
                q.allow(&notes);
                for n in list {
                    scale |= 1 << (*n).min(11);
                }
                edited_since_convert = true;
                prev_mono = None;
                mono_armed = false;
            }
            QuantOp::Forbid(_) | QuantOp::ForbidLast(_) | QuantOp::ForbidAllLast(_) => {
                let mut resolved: Vec<u8> = match op {
                    QuantOp::Forbid(l) | QuantOp::ForbidLast(l) => l.clone(),
                    QuantOp::ForbidAllLast(rot) => {
                        let keep = last_note.unwrap_or(0) % 12;
                        let mut l: Vec<u8> = (0..12u8).map(|i| (i + rot) % 12).filter(|n| *n != keep).collect();
                        l.push(keep);
                        l
                    }
                    _ => vec![],
                };
                if let QuantOp::ForbidLast(_) = op {
                    resolved.insert(0, last_note.unwrap_or(0) % 12);
                }
                let list = &resolved;
                let notes: Vec<Note> = list.iter().map(|n| Note::from(*n)).collect();
                q.forbid(&notes);
                for n in list {
                    scale &= !(1 << (*n).min(11));
                }
                if scale == 0 {
                    // only reachable with a non-empty list
                    scale = 1 << (*list.last().unwrap()).min(11);
                    stats.count("label.forbid_would_empty_scale", 1);
                }
                if let Some(n) = last_note {
                    if scale >> (n % 12) & 1 == 0 {
                        forbidden_last_class = true;
                    }
                }
                edited_since_convert = true;
                prev_mono = None;
                mono_armed = false;
            }
            QuantOp::EditBurst { note, n } => {
                let nn = Note::from(*note);
                let bit = 1u16 << (*note).min(11);
                for i in 0..*n {
                    if i % 2 == 0 {
                        q.forbid(&[nn]);
                        scale &= !bit;
                        if scale == 0 {
                            scale = bit;
                        }
                    } else {
                        q.allow(&[nn]);
                        scale |= bit;
                    }
                }
                if let Some(n) = last_note {
                    if scale >> (n % 12) & 1 == 0 {
                        forbidden_last_class = true;
                    }
                }
                stats.count("label.edit_burst", 1);
                edited_since_convert = true;
                prev_mono = None;
                mono_armed = false;
            }
            QuantOp::Convert(v) => inputs.push(*v),
            QuantOp::ConvertSame => inputs.push(last_v),
            QuantOp::ConvertNudge(d) => inputs.push(last_v + *d),
            QuantOp::Ramp { start, step, n } => {
                for i in 0..*n {
                    inputs.push(*start + *step * i as f32);
                }
            }
            QuantOp::Noise { k, amp, offs } => {
                let b = (*k % 121) as f32 / 12.0;
                for o in offs {
                    inputs.push(b + (*amp * *o) * (HYST as f32));
                }
                noise_run = Some((*k % 121, *amp));
            }
        }
        // scale bookkeeping check (C07) after every edit
        if mask & C07 != 0 && inputs.is_empty() {
            if scale == 0 {
                return Err(Failure::new("C07.model", step, "model scale empty".into()));
            }
            for n in 0..12u8 {
                let real = q.is_allowed(Note::from(n));
                let want = scale >> n & 1 == 1;
                if real != want {
                    return Err(Failure::new(
                        "C07.scale",
                        step,
                        format!("after {:?}: is_allowed({}) = {}, expected {} (scale should be {:?})", op, n, real, want, mask_notes(scale)),
                    ));
                }
            }
        }
        let mut changes_in_noise = 0u32;
        let mut prev_in_noise: Option<u8> = None;
        for v in inputs {
            let c = q.convert(v);
            conversions += 1;
            let r = c.note_num;
            // ---- C07
            if mask & C07 != 0 {
                if scale >> (r % 12) & 1 == 0 {
                    return Err(Failure::new(
                        "C07.forbidden_note",
                        step,
                        format!(
                            "convert({}) -> note {} (pitch class {}), but the allowed classes are {:?}",
                            v,
                            r,
                            r % 12,
                            mask_notes(scale)
                        ),
                    ));
                }
                if edited_since_convert && forbidden_last_class && last_note.map(|n| n >= 12).unwrap_or(false) && (v - last_v).abs() <= 0.02 {
                    nt7 = true;
                    stats.count("label.convert_after_forbidding_previous_note_octave>=1", 1);
                    if scale >> 11 & 1 == 1 {
                        stats.count("label.same_with_B_allowed", 1);
                    }
                }
            }
            // ---- window model (C09, and the hysteresis clause of C19)
            let mut kept_by_window = false;
            let mut decided_history_free = last_note.is_none();
            if let Some(n) = last_note {
                let allowed = scale >> (n % 12) & 1 == 1;
                let stair = n as f64 / 12.0;
                let vv = v as f64;
                let inside = allowed && vv > stair - HYST + TAU && vv < stair + SEMI + HYST - TAU;
                let outside = !allowed || !(vv >= stair - HYST - TAU && vv <= stair + SEMI + HYST + TAU);
                if mask & C09 != 0 {
                    if inside {
                        if r != n {
                            return Err(Failure::new(
                                "C09.window_keeps_note",
                                step,
                                format!(
                                    "previous note {} ({:.5} V) still allowed, input {} inside its widened bucket ({:.5}, {:.5}), but the note changed to {}",
                                    n,
                                    stair,
                                    v,
                                    stair - HYST,
                                    stair + SEMI + HYST,
                                    r
                                ),
                            ));
                        }
                        stats.count("conversions_decided_by_window", 1);
                        if n >= 12 {
                            window_decided_upper_octave = true;
                        }
                    } else if outside {
                        let mut f = fresh_with_mask(scale);
                        let e = f.convert(v);
                        if e.note_num != r || e.stairstep.to_bits() != c.stairstep.to_bits() || e.fraction.to_bits() != c.fraction.to_bits() {
                            return Err(Failure::new(
                                "C09.history_free_outside_window",
                                step,
                                format!(
                                    "previous note {} ({}), input {} outside its window: got (note {}, stairstep {}, fraction {}), a quantizer without history gives (note {}, stairstep {}, fraction {})",
                                    n,
                                    if allowed { "allowed" } else { "now forbidden" },
                                    v,
                                    r,
                                    c.stairstep,
                                    c.fraction,
                                    e.note_num,
                                    e.stairstep,
                                    e.fraction
                                ),
                            ));
                        }
                        stats.count("conversions_outside_window", 1);
                        left_window = true;
                        decided_history_free = true;
                    } else {
                        stats.count("conversions_in_tolerance_strip", 1);
                    }
                }
                kept_by_window = inside && r == n;
            } else if mask & C09 != 0 {
                let mut f = fresh_with_mask(scale);
                let e = f.convert(v);
                if e.note_num != r || e.stairstep.to_bits() != c.stairstep.to_bits() || e.fraction.to_bits() != c.fraction.to_bits() {
                    return Err(Failure::new(
                        "C09.first_conversion",
                        step,
                        format!("first conversion of {}: note {}, a fresh quantizer with the same scale gives {}", v, r, e.note_num),
                    ));
                }
            }
            // ---- derived C09 checks
            if mask & C09 != 0 {
                if let Some((pv, pn)) = prev_mono {
                    if v >= pv && r < pn {
                        return Err(Failure::new(
                            "C09.monotone",
                            step,
                            format!("fixed scale {:?}: input rose {} -> {} but the note fell {} -> {}", mask_notes(scale), pv, v, pn, r),
                        ));
                    }
                }
                if let Some((_, amp)) = noise_run {
                    if scale == 0xfff && (amp.abs() as f64) * HYST < HYST - TAU {
                        if let Some(p) = prev_in_noise {
                            if p != r {
                                changes_in_noise += 1;
                            }
                        } else if let Some(p) = last_note {
                            if p != r {
                                changes_in_noise += 1;
                            }
                        }
                        if changes_in_noise > 1 {
                            return Err(Failure::new(
                                "C09.noise_chatter",
                                step,
                                format!("chromatic scale, noise of amplitude {}*H around a boundary caused {} note changes", amp, changes_in_noise),
                            ));
                        }
                        prev_in_noise = Some(r);
                    }
                }
            }
            // ---- C19
            if mask & C19 != 0 {
                check_record(v, &c, step, stats)?;
                // "the window kept the previous note" = the previous note is still allowed, the input is strictly inside its
                // widened bucket and the note was indeed kept (which C09 requires there); which code path computed the
                // record is not observable and does not matter
                if kept_by_window {
                    let semis = c.fraction as f64 * 12.0;
                    let tol = 12.0 * TAU + 1e-5;
                    if !(semis >= -0.1 - tol && semis <= 1.1 + tol) {
                        return Err(Failure::new(
                            "C19.hysteresis_fraction",
                            step,
                            format!("window kept note {} for input {}: fraction {} semitones outside [-0.1, 1.1]", r, v, semis),
                        ));
                    }
                    stats.ratio("hysteresis_fraction_excursion/0.1", ((semis - 0.5).abs() - 0.5).max(0.0) / 0.1);
                    nt19 = true;
                }
                if !(v >= 0.0 && v <= 10.0) || scale != 0xfff {
                    nt19 = true;
                }
            }
            last_note = Some(r);
            last_v = v;
            // "for a fixed scale": the tracked sequence starts at a conversion that was decided without history under
            // the current scale (a note kept by the window right after a scale edit still stems from the old scale)
            if decided_history_free {
                mono_armed = true;
            }
            prev_mono = if v.is_nan() || !mono_armed { None } else { Some((v, r)) };
            edited_since_convert = false;
            forbidden_last_class = false;
        }
    }
    stats.count("conversions", conversions);
    let nt9 = window_decided_upper_octave && left_window;
    if mask & C09 != 0 && scale >> 11 & 1 == 0 {
        stats.count("label.history_ends_with_B_forbidden", 1);
    }
    Ok(CaseInfo {
        nontrivial: (mask & C07 != 0 && nt7) || (mask & C09 != 0 && nt9) || (mask & C19 != 0 && nt19),
    })
}

/// C08 inputs for one scale: every half-semitone grid point (all decision boundaries of any two notes) +- small
/// offsets, out-of-range values, and `n_random` values from the deterministic stream.
pub fn c08_inputs(mix: &mut Mix, n_random: usize, out: &mut Vec<f32>) {
    out.clear();
    for k in 0..=240u32 {
        let b = k as f64 / 24.0;
        for d in [-2e-5f64, -1e-6, 0.0, 1e-6, 2e-5] {
            out.push((b + d) as f32);
        }
    }
    for _ in 0..n_random {
        out.push((mix.unit() * 10.0) as f32);
    }
    out.extend_from_slice(&[-1.0, -0.0, -1e-7, 10.00001, 10.5, 11.0, 1e30, -1e30, f32::INFINITY, f32::NEG_INFINITY, 9.999999, 1e-7]);
}

/// C08 over one scale: the acceptance predicate on every input and "note never decreases as v rises".
pub fn check_scale(mask: u16, inputs: &mut Vec<f32>, c19: bool, stats: &mut Stats) -> Result<(), Failure> {
    inputs.sort_by(|a, b| a.partial_cmp(b).unwrap());
    let mut prev: Option<(f32, u8)> = None;
    let mut nt = 0u64;
    for (i, &v) in inputs.iter().enumerate() {
        // the scale is configured in a different one of the four ways for consecutive inputs
        let r = check_fresh_built(mask, (i % 6) as u8, v, !c19, c19, stats)?;
        if !c19 {
            if let Some((pv, pr)) = prev {
                if r < pr {
                    return Err(Failure::new(
                        "C08.monotone",
                        0,
                        format!("scale {:?}: convert({}) -> {} but convert({}) -> {}", mask_notes(mask), pv, pr, v, r),
                    )
                    .with(serde_json::json!({"scale_mask": mask, "v_bits": v.to_bits(), "prev_v_bits": pv.to_bits()})));
                }
            }
            prev = Some((v, r));
            let cl = clampv(v);
            let own_octave = (cl.floor() as i64).min(10);
            if mask != 0xfff && cl >= 1.0 && (r as i64 / 12) != own_octave {
                nt += 1;
            } else {
                // within 10 semitone-cents of a half-semitone grid point
                let g = (cl * 24.0).round() / 24.0;
                if (cl - g).abs() < SEMI / 1000.0 {
                    nt += 1;
                }
            }
        }
    }
    stats.count("conversions", inputs.len() as u64);
    stats.count("nontrivial_conversions", nt);
    Ok(())
}

/// complete microvolt sweep [lo, hi) for one scale
pub fn microvolt_sweep(mask: u16, lo: u64, hi: u64, stats: &mut Stats) -> Result<(), Failure> {
    let mut prev: Option<(f32, u8)> = None;
    for i in lo..hi {
        let v = (i as f64 * 1e-6) as f32;
        let r = check_fresh(mask, v, true, false, stats)?;
        if let Some((pv, pr)) = prev {
            if r < pr {
                return Err(Failure::new(
                    "C08.monotone",
                    0,
                    format!("scale {:?}: convert({}) -> {} but convert({}) -> {}", mask_notes(mask), pv, pr, v, r),
                )
                .with(serde_json::json!({"scale_mask": mask, "v_bits": v.to_bits(), "prev_v_bits": pv.to_bits()})));
            }
        }
        prev = Some((v, r));
    }
    stats.count("conversions", hi - lo);
    stats.count("microvolt_sweep_conversions", hi - lo);
    Ok(())
}
