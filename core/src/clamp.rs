//! C20: out-of-range parameters are clamped to the nearest legal value.

use crate::adsr::{AdsrCase, AdsrOp};
use crate::common::*;
use synth_utils::adsr::{Adsr, Input, SustainLevel, TimePeriod};
use synth_utils::quantizer::Note;

/// reference clamp: Some(v) = required value, None = NaN input (any bound is fine)
fn ref_clamp(x: f32, lo: f32, hi: f32) -> Option<f32> {
    if x.is_nan() {
        None
    } else if x < lo {
        Some(lo)
    } else if x > hi {
        Some(hi)
    } else {
        Some(x)
    }
}

pub fn is_special(x: f32, lo: f32, hi: f32) -> bool {
    x.is_nan() || x.is_infinite() || x < lo || x > hi || (x != 0.0 && x.abs() < f32::MIN_POSITIVE) || (x == 0.0 && x.is_sign_negative())
}

pub fn check_time_bits(bits: u32) -> Result<(), Failure> {
    let x = f32::from_bits(bits);
    let r: f32 = TimePeriod::from(x).into();
    match ref_clamp(x, 0.001, 20.0) {
        Some(e) => {
            if !(r == e) {
                return Err(Failure::new(
                    "C20.time_clamp",
                    0,
                    format!("TimePeriod::from({:e} [bits {:#010x}]) = {:e}, expected {:e}", x, bits, r, e),
                ));
            }
        }
        None => {
            if !(r == 0.001 || r == 20.0) {
                return Err(Failure::new(
                    "C20.time_nan",
                    0,
                    format!("TimePeriod::from(NaN [bits {:#010x}]) = {:e}, expected one of the bounds", bits, r),
                ));
            }
        }
    }
    Ok(())
}

pub fn check_sustain_bits(bits: u32) -> Result<(), Failure> {
    let x = f32::from_bits(bits);
    let r: f32 = SustainLevel::from(x).into();
    match ref_clamp(x, 0.0, 1.0) {
        Some(e) => {
            if !(r == e) {
                return Err(Failure::new(
                    "C20.sustain_clamp",
                    0,
                    format!("SustainLevel::from({:e} [bits {:#010x}]) = {:e}, expected {:e}", x, bits, r, e),
                ));
            }
        }
        None => {
            if !(r == 0.0 || r == 1.0) {
                return Err(Failure::new(
                    "C20.sustain_nan",
                    0,
                    format!("SustainLevel::from(NaN [bits {:#010x}]) = {:e}, expected one of the bounds", bits, r),
                ));
            }
        }
    }
    Ok(())
}

/// complete generator over a range of f32 bit patterns with a stride
pub fn sweep_bits(lo: u64, hi: u64, stride: u64, stats: &mut Stats) -> Result<u64, Failure> {
    let mut b = lo;
    let mut n = 0u64;
    let mut special = 0u64;
    while b < hi {
        let bits = b as u32;
        check_time_bits(bits)?;
        check_sustain_bits(bits)?;
        let x = f32::from_bits(bits);
        if is_special(x, 0.001, 20.0) || is_special(x, 0.0, 1.0) {
            special += 1;
        }
        n += 1;
        b += stride;
    }
    stats.count("f32_patterns", n);
    stats.count("f32_patterns_outside_or_special", special);
    Ok(n)
}

pub fn special_patterns() -> Vec<u32> {
    let mut v = vec![];
    let base: [f32; 24] = [
        0.0, -0.0, 0.001, 20.0, 1.0, f32::MIN_POSITIVE, f32::MAX, f32::MIN, f32::INFINITY, f32::NEG_INFINITY, f32::NAN,
        -1.0, 0.5, 1e-45, -1e-45, 19.999998, 20.000002, 0.0009999999, 0.0010000001, 0.99999994, 1.0000001, -1e-30,
        1e30, 2.0,
    ];
    for b in base {
        let bits = b.to_bits();
        for d in -64i64..=64 {
            v.push((bits as i64 + d) as u32);
        }
    }
    // NaN payloads, both signs
    for p in [0x7fc00000u32, 0xffc00000, 0x7f800001, 0xff800001, 0x7fffffff, 0xffffffff, 0x7fa00000] {
        v.push(p);
    }
    v
}

/// all 256 u8 -> Note
pub fn check_notes(stats: &mut Stats) -> Result<(), Failure> {
    for n in 0..=255u8 {
        let e = n.min(11);
        let a = u8::from(Note::from(n));
        let b = u8::from(Note::new(n));
        if a != e || b != e {
            return Err(Failure::new(
                "C20.note_clamp",
                n as usize,
                format!("Note::from({}) -> {}, Note::new({}) -> {}, expected {}", n, a, n, b, e),
            ));
        }
        stats.count("u8_note_values", 1);
        if n > 11 {
            stats.count("u8_note_values_above_11", 1);
        }
    }
    Ok(())
}

/// Differential: the same ADSR history run with the raw parameters and with the reference-clamped parameters
/// must produce bit-identical outputs on every tick.
pub fn adsr_twin(case: &AdsrCase, tick_budget: u64, stats: &mut Stats) -> Result<bool, Failure> {
    let mut a = Adsr::new(case.fs);
    let mut b = Adsr::new(case.fs);
    let mut ticks = 0u64;
    let mut special = 0u32;
    let clamp_t = |x: f32, a: &Adsr| -> f32 {
        let _ = a;
        match ref_clamp(x, 0.001, 20.0) {
            Some(v) => v,
            None => TimePeriod::from(x).into(),
        }
    };
    let clamp_s = |x: f32| -> f32 {
        match ref_clamp(x, 0.0, 1.0) {
            Some(v) => v,
            None => SustainLevel::from(x).into(),
        }
    };
    for (step, op) in case.ops.iter().enumerate() {
        let mut n_ticks = 0u64;
        match op {
            AdsrOp::GateOn => {
                a.gate_on();
                b.gate_on();
            }
            AdsrOp::GateOff => {
                a.gate_off();
                b.gate_off();
            }
            AdsrOp::Tick(n) => n_ticks = *n as u64,
            AdsrOp::TickFrac(q) => n_ticks = 1 + (*q * 50.0) as u64,
            AdsrOp::Seek(q) => n_ticks = 1 + (*q * 500.0) as u64,
            AdsrOp::SetAttack(t) => {
                if is_special(*t, 0.001, 20.0) {
                    special += 1;
                }
                a.set_input(Input::Attack((*t).into()));
                b.set_input(Input::Attack(clamp_t(*t, &a).into()));
            }
            AdsrOp::SetDecay(t) => {
                if is_special(*t, 0.001, 20.0) {
                    special += 1;
                }
                a.set_input(Input::Decay((*t).into()));
                b.set_input(Input::Decay(clamp_t(*t, &a).into()));
            }
            AdsrOp::SetRelease(t) => {
                if is_special(*t, 0.001, 20.0) {
                    special += 1;
                }
                a.set_input(Input::Release((*t).into()));
                b.set_input(Input::Release(clamp_t(*t, &a).into()));
            }
            AdsrOp::NudgeTime { .. } | AdsrOp::GateBurst { .. } | AdsrOp::CutShort(_) | AdsrOp::ParamBurst { .. } => {}
            AdsrOp::SetSustain(s) => {
                if is_special(*s, 0.0, 1.0) {
                    special += 1;
                }
                a.set_input(Input::Sustain((*s).into()));
                b.set_input(Input::Sustain(clamp_s(*s).into()));
            }
        }
        let n_ticks = n_ticks.min(tick_budget.saturating_sub(ticks));
        for _ in 0..n_ticks {
            a.tick();
            b.tick();
            ticks += 1;
            if a.value().to_bits() != b.value().to_bits() || a.verif_state() != b.verif_state() {
                return Err(Failure::new(
                    "C20.adsr_behaves_as_clamped",
                    step,
                    format!(
                        "envelope configured with raw values outputs {} ({:?}), configured with the clamped values {} ({:?})",
                        a.value(),
                        a.verif_state(),
                        b.value(),
                        b.verif_state()
                    ),
                ));
            }
        }
    }
    stats.count("twin_ticks", ticks);
    Ok(special >= 1 && ticks >= 20)
}
