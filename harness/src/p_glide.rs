//! C13, C14

use crate::runner::*;
use crate::strat::*;
use proptest::prelude::*;
use serde_json::Value;
use vcore::common::*;
use vcore::glide::*;

fn glide_time(fs: f32) -> BoxedStrategy<f32> {
    let fsd = fs as f64;
    prop_oneof![
        2 => Just(0.0f32),
        3 => (0.0f64..2.0).prop_map(move |k| (k / fsd) as f32),
        3 => (0.0f64..6.0).prop_map(move |k| (k / fsd) as f32),
        // exactly k samples, evaluated in f32, and its neighbours (k = 2: the boundary of the fastest setting)
        1 => (prop_oneof![3 => Just(2u8), 2 => 1u8..=4, 1 => Just(8u8)], -1i32..=1).prop_map(move |(k, u)| f32::from_bits(((k as f32 / fs).to_bits() as i32 + u) as u32)),
        2 => 0.0f32..0.1,
        2 => 0.0f32..1.0,
        1 => 0.0f32..=10.0,
        1 => Just(10.0f32),
    ]
    .boxed()
}

fn glide_input() -> BoxedStrategy<f32> {
    prop_oneof![
        6 => -10.0f32..=10.0,
        1 => Just(0.0f32),
        1 => prop_oneof![Just(10.0f32), Just(-10.0f32), Just(1.0f32), Just(-1.0f32)],
        1 => prop_oneof![2 => prop_oneof![Just(1e-20f32), Just(-1e-30f32), Just(1e-40f32), Just(f32::MIN_POSITIVE), Just(-0.0f32)], 3 => tiny_f32()],
        // the statement quantifies over every input sequence: very large magnitudes of either sign, back to back
        1 => prop_oneof![Just(3e38f32), Just(-3e38f32), Just(f32::MAX), Just(f32::MIN), Just(1e30f32), Just(-1e30f32), Just(1e19f32), Just(-1e19f32)],
    ]
    .boxed()
}

fn glide_op(fs: f32) -> BoxedStrategy<GlideOp> {
    prop_oneof![
        4 => glide_time(fs).prop_map(GlideOp::SetTime),
        2 => (0.0f32..=1.0).prop_map(GlideOp::FastSwitch),
        5 => glide_input().prop_map(GlideOp::Input),
        1 => Just(GlideOp::InputCurrent),
        4 => (1u32..=8).prop_map(GlideOp::Run),
        4 => (1u32..=3000).prop_map(GlideOp::Run),
        2 => Just(GlideOp::RunSettle),
        1 => (glide_time(fs), glide_time(fs), proptest::sample::select(vec![255u16, 256, 257, 512, 20, 3]), proptest::bool::weighted(0.4)).prop_map(|(a, b, n, idle)| GlideOp::TimeBurst { a, b, n, idle }),
    ]
    .boxed()
}

pub fn glide_case() -> BoxedStrategy<GlideCase> {
    sample_rate(48_000.0)
        .prop_flat_map(|fs| (Just(fs), proptest::collection::vec(glide_op(fs), 5..60)))
        .prop_map(|(fs, ops)| GlideCase { fs, ops })
        .boxed()
}

fn base_delta() -> BoxedStrategy<(f32, f32)> {
    let base = prop_oneof![5 => Just(0.0f32), 2 => -1.0f32..1.0, 2 => -10.0f32..10.0];
    let delta = prop_oneof![
        2 => Just(1.0f32),
        3 => 0.01f32..10.0,
        3 => (0.01f32..10.0).prop_map(|d| -d),
    ];
    (base, delta).boxed()
}

/// steps between values of huge magnitude, including steps across zero whose size exceeds f32::MAX ("all step sizes/offsets")
fn huge_step() -> BoxedStrategy<(f32, f32)> {
    let big = || prop_oneof![Just(3e38f32), Just(f32::MAX), Just(2e38f32), Just(1e30f32), Just(1e19f32), 1e37f32..3.4e38];
    let any_sign = move || (big(), any::<bool>()).prop_map(|(v, neg)| if neg { -v } else { v });
    prop_oneof![
        2 => (any_sign(), any_sign()),
        1 => (any_sign(), prop_oneof![Just(0.0f32), -10.0f32..10.0]),
        1 => (prop_oneof![Just(0.0f32), -10.0f32..10.0], any_sign()),
    ]
    .prop_map(|(a, b)| if a == b { (a, -b) } else { (a, b) })
    .boxed()
}

pub fn c14_case(max_n: f64) -> BoxedStrategy<C14Case> {
    let step = (sample_rate(48_000.0), (100.0f64.ln()..max_n.ln()), base_delta(), 0u32..20, proptest::option::weighted(0.08, huge_step())).prop_map(move |(fs, ln_n, (base, delta), sel, huge)| {
        let n = ln_n.exp();
        let mut t = (n / fs as f64) as f32;
        if sel == 0 {
            // beyond the 10 s clamp
            t = 10.0 + t * 30.0;
        }
        // keep at least 100 samples per t after f32 rounding
        if (t as f64) * (fs as f64) < 100.0 {
            t = (100.5 / fs as f64) as f32;
        }
        let (base, target) = match huge {
            Some((b, x)) => (b, Some(x)),
            None => (base, None),
        };
        // a fifth of the cases reach the level with the glide switched off and select the time right before the step
        let off_first = if (1..=4).contains(&sel) && t >= 0.06 && base != 0.0 && huge.is_none() { 5 + 3 * sel as u8 } else { 0 };
        let base = if off_first == 0 && (t.min(10.0) as f64) * (fs as f64) > 60_000.0 { 0.0 } else { base };
        let target = target.map(|x| if x == base { 3e38 } else { x });
        C14Case::Step { fs, t, base, delta, target, off_first }
    });
    let fast = (sample_rate(48_000.0), prop_oneof![1 => Just(0.0f64), 4 => 0.0f64..0.999], base_delta(), proptest::option::weighted(0.08, huge_step())).prop_map(|(fs, u, (base, delta), huge)| C14Case::Fast {
        fs,
        t: (u * 2.0 / fs as f64) as f32,
        base: huge.map(|h| h.0).unwrap_or(base),
        delta,
        target: huge.map(|h| h.1),
    });
    let long = (sample_rate(48_000.0), prop_oneof![3 => 10.0001f32..1000.0, 1 => Just(1000.0f32), 1 => Just(10.5f32)], base_delta(), 200u32..5000)
        .prop_map(|(fs, t, (_, delta), samples)| C14Case::Long { fs, t, delta, samples });
    #[derive(Debug, Clone)]
    enum El {
        Abs(f32),
        Creep(f32),
        /// back to the time requested `k` calls ago, plus `d`
        Back(u8, f32),
    }
    let el = prop_oneof![
        3 => (0.0f32..=10.0).prop_map(El::Abs),
        1 => (0.0f32..0.2).prop_map(El::Abs),
        6 => prop_oneof![0.0255f32..0.0495, -0.0495f32..-0.0255].prop_map(El::Creep),
        2 => prop_oneof![0.0505f32..0.2, -0.2f32..-0.0505].prop_map(El::Creep),
        1 => (-0.02f32..0.02).prop_map(El::Creep),
        3 => (1u8..4, prop_oneof![1 => Just(0.0f32), 3 => -0.06f32..0.06]).prop_map(|(k, d)| El::Back(k, d)),
    ];
    let hist = (sample_rate(48_000.0), proptest::collection::vec(el, 1..40), proptest::collection::vec(0u8..20, 0..40), base_delta()).prop_map(|(fs, els, gaps, (_, delta))| {
        let mut calls = vec![];
        let mut cur = 0.5f32;
        for e in els {
            cur = match e {
                El::Abs(t) => t,
                El::Creep(d) => (cur + d).clamp(0.0, 10.0),
                El::Back(k, d) => {
                    let n = calls.len();
                    let base = if n > k as usize { calls[n - 1 - k as usize] } else { cur };
                    (base + d).clamp(0.0, 10.0)
                }
            };
            calls.push(cur);
        }
        C14Case::History { fs, calls, gaps, delta }
    });
    prop_oneof![5 => step, 2 => fast, 1 => long, 5 => hist].boxed()
}

pub fn replay(engine: &str, case: &Value) -> Result<(), Failure> {
    let mut st = Stats::default();
    let dec = |e: serde_json::Error| Failure::new("replay_decode", 0, e.to_string());
    match engine {
        "glide_c13" => {
            let c: GlideCase = serde_json::from_value(case.clone()).map_err(dec)?;
            run_c13(&c, 50_000_000, &mut st).map(|_| ())
        }
        "glide_c14" => {
            let c: C14Case = serde_json::from_value(case.clone()).map_err(dec)?;
            run_c14(&c, &mut st).map(|_| ())
        }
        _ => Err(Failure::new("replay_unknown_engine", 0, engine.to_string())),
    }
}

pub fn c13(quick: bool, seed: u64) -> Outcome {
    let mut o = Outcome::new(
        "proptest schedules: sample rate log-uniform [100 Hz, 48 kHz] + 5..60 ops from {set_time(t) with t from {0, U[0,2/fs], U[0,6/fs], U[0,0.1], U[0,1], U[0,10], 10}, switch-to-fastest (t = u*2/fs), input x from {U[-10,10], 0, +-1, +-10, tiny/subnormal (every binade down to the smallest subnormal, both signs), huge (+-1e19, +-1e30, +-3e38, +-f32::MAX)}, input := current output, bursts of 3..512 set_time calls alternating between two times (with one sample or no sample in between), run n samples (1-8 | 1-3000), run for the settle time}; after every sample: output inside the hull of 0 and the inputs so far; while the input is held: distance to it never grows, no crossing; after max(3*te, 8/fs) s of holding: within 1% of the distance at the start of the hold - all up to the f32 resolution allowance E_n = (1-a)E_{n-1} + 4ulp. non-trivial = schedule with a set_time while the output is still far (> 100 E_n) from the input AND a time <= 4/fs in effect at some point; distinct by hash",
    );
    o.assumptions.push("times in [0,10] s, finite inputs (mostly in [-10,10], some of huge magnitude); the time in effect after in-band set_time calls is either of the admissible ones (the allowance uses the slowest)".into());
    let (cases, budget) = if quick { (60_000, 150_000u64) } else { (400_000, 3_000_000u64) };
    let part = pt_run("glide_c13", glide_case, cases, seed, 13, 3000, |c, st| run_c13(c, budget, st).map(|i| i.nontrivial));
    o.absorb(part);
    o
}

pub fn c14(quick: bool, seed: u64) -> Outcome {
    let mut o = Outcome::new(
        "proptest cases of four kinds: Step (fresh processor, set_time(t) with t*fs log-uniform in [100, Nmax], settle at base - or, in a fifth of the cases with t >= 0.06 s, reach base under the fastest response and select t right before the step - in {0, U[-1,1], U[-10,10]}, step by {1, +-U[0.01,10]} - or, in 8% of the Step and Fast cases, a step between huge values of either sign (+-1e19..+-f32::MAX, also larger than f32::MAX across zero) -: coverage at sample round(t*fs/10) in [0.40,0.55] and at ceil(t*fs) >= 0.995; 1 in 20 with t beyond the 10 s clamp), Fast (t = u*2/fs incl. 0: within 0.5% after 8 samples), Long (t in (10,1000]: sample-for-sample equal to t = 10), History (1..40 set_time calls: absolute times and creep progressions with steps inside/outside the 0.05 s dead band, zeros processed in between, then a step: the response must match, within 2 E_n at every sample, a fresh processor at one of the times the statement allows to be in effect). non-trivial = Step whose resolution allowance is < 0.1% of the step, every Fast/Long case, History with >= 2 in-band calls followed by an out-of-band one; distinct by hash",
    );
    o.assumptions.push("an in-band set_time call may be ignored or honoured (the statement permits ignoring); a fresh processor responds like time 0".into());
    let (cases, max_n) = if quick { (150_000, 60_000.0) } else { (400_000, 480_000.0) };
    let part = pt_run("glide_c14", move || c14_case(max_n), cases, seed, 14, 3000, |c, st| run_c14(c, st).map(|i| i.nontrivial));
    o.absorb(part);
    o
}
