//! Shared proptest strategies (floats with the special values the properties quantify over).

use proptest::prelude::*;

pub fn log_uniform(lo: f64, hi: f64) -> BoxedStrategy<f32> {
    (lo.ln()..hi.ln()).prop_map(|x| x.exp() as f32).boxed()
}

/// sample rates in [100 Hz, max], integer and non-integer, plus the usual suspects
pub fn sample_rate(max: f64) -> BoxedStrategy<f32> {
    let mut fixed: Vec<f32> = vec![100.0, 999.0, 1000.0, 1001.0, 8000.0, 22050.0, 44100.0, 48000.0, 96000.0, 192000.0];
    fixed.retain(|f| (*f as f64) <= max);
    prop_oneof![
        3 => log_uniform(100.0, max).prop_map(move |f| f.max(100.0).min(max as f32)),
        1 => log_uniform(100.0, max).prop_map(move |f| f.round().max(100.0).min(max as f32)),
        2 => proptest::sample::select(fixed),
        // round rates: every multiple of 500 Hz, and powers of two
        2 => (1u32..=384).prop_map(move |k| ((k * 500) as f32).min(max as f32).max(100.0)),
        1 => (7u32..=17).prop_map(move |j| ((1u32 << j) as f32).min(max as f32).max(100.0)),
    ]
    .boxed()
}

/// any finite f32 bit pattern class: huge, tiny, subnormal, negative
pub fn wild_finite() -> BoxedStrategy<f32> {
    prop_oneof![
        Just(0.0f32),
        Just(-0.0f32),
        Just(f32::MAX),
        Just(f32::MIN),
        Just(f32::MIN_POSITIVE),
        Just(1e-45f32),
        Just(-1e-45f32),
        Just(1e30f32),
        Just(-1e30f32),
        Just(1e9f32),
        Just(-1.0f32),
        any::<u32>().prop_map(f32::from_bits).prop_filter("finite", |x| x.is_finite()),
    ]
    .boxed()
}

/// tiny magnitudes of either sign: every binade of the subnormal range and the first normal binades (log-uniform over
/// the bit patterns 1 ..= 0x00ff_ffff), the smallest three subnormals over-weighted
pub fn tiny_f32() -> BoxedStrategy<f32> {
    prop_oneof![
        2 => (0u32..24, any::<u32>(), any::<bool>()).prop_map(|(k, low, neg)| {
            let bits = (1u32 << k) | (low & ((1u32 << k) - 1));
            let v = f32::from_bits(bits);
            if neg { -v } else { v }
        }),
        1 => (1u32..=3, any::<bool>()).prop_map(|(b, neg)| if neg { -f32::from_bits(b) } else { f32::from_bits(b) }),
    ]
    .boxed()
}

pub fn non_finite() -> BoxedStrategy<f32> {
    prop_oneof![
        Just(f32::NAN),
        Just(-f32::NAN),
        Just(f32::INFINITY),
        Just(f32::NEG_INFINITY),
        Just(f32::from_bits(0x7f800001)),
    ]
    .boxed()
}

/// envelope time argument for an envelope running at `fs`
pub fn adsr_time(fs: f32) -> BoxedStrategy<f32> {
    let few = (5.0 / fs as f64).max(0.0011);
    prop_oneof![
        4 => log_uniform(0.001, 20.0),
        3 => (0.001f64..few).prop_map(|x| x as f32),
        // around one sample per phase
        2 => (0.3f64..2.5).prop_map(move |k| (k / fs as f64) as f32),
        // exactly k samples per phase in f32 arithmetic (k = 1 makes the per-tick step exactly one full cycle)
        2 => proptest::sample::select(vec![0.25f32, 0.5, 1.0, 2.0, 3.0, 4.0, 8.0, 16.0, 1024.0]).prop_map(move |k| k / fs),
        1 => proptest::sample::select(vec![1.0f32, 2.0, 4.0]).prop_map(move |k| k * (1.0f32 / fs)),
        1 => prop_oneof![Just(0.001f32), Just(20.0f32)],
        1 => wild_finite(),
        1 => non_finite(),
    ]
    .boxed()
}

pub fn sustain_level() -> BoxedStrategy<f32> {
    prop_oneof![
        6 => 0.0f32..=1.0f32,
        1 => Just(0.0f32),
        1 => Just(1.0f32),
        1 => Just(-0.0f32),
        1 => wild_finite(),
        1 => non_finite(),
        1 => -0.5f32..1.5f32,
    ]
    .boxed()
}
