//! C20 differentials that need the quantizer and MIDI models: note numbers above 11 act as 11, channels above 15 as 15
use crate::p_midi::stream_case_structured;
use crate::p_quant::quant_case;
use crate::runner::*;
use serde_json::Value;
use synth_utils::mono_midi_receiver::MonoMidiReceiver;
use synth_utils::quantizer::{Note, Quantizer};
use vcore::common::*;
use vcore::midi::{observe, StreamCase};
use vcore::quant::{QuantCase, QuantOp};

/// same history, once with the raw note numbers and once with min(n,11): identical is_allowed answers and conversions
pub fn quant_twin(case: &QuantCase, st: &mut Stats) -> Result<bool, Failure> {
    let mut a = Quantizer::new();
    let mut b = Quantizer::new();
    let mut big = false;
    let mut last_v = 0.0f32;
    for (step, op) in case.ops.iter().enumerate() {
        let mut inputs: Vec<f32> = vec![];
        match op {
            QuantOp::ForbidAllLast(_) => {}
            QuantOp::Allow(l) | QuantOp::Forbid(l) | QuantOp::ForbidLast(l) => {
                if l.iter().any(|n| *n > 11) {
                    big = true;
                }
                let raw: Vec<Note> = l.iter().map(|n| Note::from(*n)).collect();
                let cl: Vec<Note> = l.iter().map(|n| Note::from((*n).min(11))).collect();
                if matches!(op, QuantOp::Allow(_)) {
                    a.allow(&raw);
                    b.allow(&cl);
                } else {
                    a.forbid(&raw);
                    b.forbid(&cl);
                }
            }
            QuantOp::Convert(v) => inputs.push(*v),
            QuantOp::ConvertSame => inputs.push(last_v),
            QuantOp::ConvertNudge(d) => inputs.push(last_v + d),
            QuantOp::Ramp { start, step, n } => {
                for i in 0..(*n).min(6) {
                    inputs.push(start + step * i as f32)
                }
            }
            QuantOp::Noise { .. } | QuantOp::EditBurst { .. } => {}
        }
        for n in 0..=255u8 {
            let x = a.is_allowed(Note::from(n));
            let y = b.is_allowed(Note::from(n.min(11)));
            if x != y {
                return Err(Failure::new(
                    "C20.note_acts_as_11",
                    step,
                    format!("after {:?}: is_allowed({}) = {} on the raw history, is_allowed({}) = {} on the clamped history", op, n, x, n.min(11), y),
                ));
            }
        }
        for v in inputs {
            let (x, y) = (a.convert(v), b.convert(v));
            if x.note_num != y.note_num {
                return Err(Failure::new("C20.note_acts_as_11", step, format!("convert({}) = {} on the raw history, {} on the clamped history", v, x.note_num, y.note_num)));
            }
            last_v = v;
        }
    }
    st.count("quant_twin_histories", 1);
    Ok(big)
}

/// new(c) behaves as new(min(c,15)): all getters after every byte
pub fn midi_twin(case: &StreamCase, st: &mut Stats) -> Result<bool, Failure> {
    let mut a = MonoMidiReceiver::new(case.channel);
    let mut b = MonoMidiReceiver::new(case.channel.min(15));
    for (i, &x) in case.bytes.iter().enumerate() {
        // a panic is C06's / C17's business; for C20 only a DIFFERENCE between the two receivers counts
        let (pa, pb) = (catch(|| a.parse(x)), catch(|| b.parse(x)));
        if pa.is_err() || pb.is_err() {
            if pa.is_err() != pb.is_err() {
                return Err(Failure::new(
                    "C20.channel_acts_as_15",
                    i,
                    format!("byte {} ({:#04x}): only one of MonoMidiReceiver::new({}) / new({}) panicked", i, x, case.channel, case.channel.min(15)),
                ));
            }
            st.count("midi_twin_streams_cut_by_identical_panic", 1);
            return Ok(false);
        }
        if observe(&a) != observe(&b) {
            return Err(Failure::new(
                "C20.channel_acts_as_15",
                i,
                format!("MonoMidiReceiver::new({}) and new({}) differ after byte {} ({:#04x})", case.channel, case.channel.min(15), i, x),
            ));
        }
        if case.poll_mask >> (i % 64) & 1 == 1 && (a.rising_gate() != b.rising_gate() || a.falling_gate() != b.falling_gate()) {
            return Err(Failure::new("C20.channel_acts_as_15", i, format!("edge getters of new({}) and new({}) differ after byte {}", case.channel, case.channel.min(15), i)));
        }
    }
    st.count("midi_twin_streams", 1);
    Ok(case.channel > 15)
}

pub fn replay(engine: &str, case: &Value) -> Result<(), Failure> {
    let mut st = Stats::default();
    let dec = |e: serde_json::Error| Failure::new("replay_decode", 0, e.to_string());
    match engine {
        "c20_quant_twin" => quant_twin(&serde_json::from_value(case.clone()).map_err(dec)?, &mut st).map(|_| ()),
        "c20_midi_twin" => midi_twin(&serde_json::from_value(case.clone()).map_err(dec)?, &mut st).map(|_| ()),
        "c20_channels" => all_channels(&mut st),
        _ => Err(Failure::new("replay_unknown_engine", 0, format!("no replay handler for engine {}", engine))),
    }
}

/// all 256 channel arguments: a note-on on channel min(c,15) is heard, on the next channel it is not
fn all_channels(st: &mut Stats) -> Result<(), Failure> {
    for c in 0..=255u8 {
        let e = c.min(15);
        for other in 0..16u8 {
            let mut r = MonoMidiReceiver::new(c);
            r.parse(0x90 | other);
            r.parse(61);
            r.parse(100);
            let heard = r.gate() && r.note_num() == 61;
            if heard != (other == e) {
                return Err(Failure::new("C20.channel_clamp", c as usize, format!("MonoMidiReceiver::new({}): note-on on channel {} heard = {}, expected {}", c, other, heard, other == e)));
            }
        }
        st.count("u8_channel_values", 1);
        if c > 15 {
            st.count("u8_channel_values_above_15", 1);
        }
    }
    Ok(())
}

pub fn extend(o: &mut Outcome, quick: bool, seed: u64) {
    let part = par_chunks("c20_channels", 1, 1, |_, _, st| {
        all_channels(st).map_err(|f| (serde_json::json!({"channel": f.step}), f))?;
        st.count("sweep_evaluations", 256);
        Ok(())
    });
    o.absorb(part);
    let cases = if quick { 30_000 } else { 200_000 };
    let part = pt_run("c20_quant_twin", quant_case, cases, seed, 201, 4000, |c, st| quant_twin(c, st));
    o.absorb(part);
    let part = pt_run(
        "c20_midi_twin",
        || {
            use proptest::prelude::*;
            (stream_case_structured(), 0u8..=255).prop_map(|(mut c, ch)| {
                // re-target the stream at the clamped channel so that it is actually heard
                let old = c.channel.min(15);
                let new = ch.min(15);
                for b in c.bytes.iter_mut() {
                    if *b >= 0x80 && *b < 0xF0 && (*b & 0x0F) == old {
                        *b = (*b & 0xF0) | new;
                    }
                }
                c.channel = ch;
                c
            })
        },
        cases,
        seed,
        202,
        4000,
        |c, st| midi_twin(c, st),
    );
    o.absorb(part);
}
