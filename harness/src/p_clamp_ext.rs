//! C20 differentials that need the quantizer and MIDI models
use crate::runner::*;
use serde_json::Value;
use vcore::common::*;

pub fn replay(engine: &str, _case: &Value) -> Result<(), Failure> {
    Err(Failure::new("replay_unknown_engine", 0, format!("no replay handler for engine {}", engine)))
}

pub fn extend(_o: &mut Outcome, _quick: bool, _seed: u64) {}
