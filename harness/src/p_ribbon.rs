//! C15, C16

use crate::runner::*;
use crate::strat::*;
use proptest::prelude::*;
use serde_json::Value;
use vcore::common::*;
use vcore::ribbon::*;

fn run_len() -> BoxedStrategy<RunLen> {
    prop_oneof![
        2 => (0u8..5).prop_map(RunLen::Glitch),
        4 => (0.0f32..1.0).prop_map(RunLen::Tap),
        2 => (0.5f32..1.0).prop_map(RunLen::Tap),
        4 => (-1i8..=1).prop_map(RunLen::Edge),
        3 => (0.0f32..3.0).prop_map(RunLen::Long),
    ]
    .boxed()
}

fn level() -> BoxedStrategy<f32> {
    prop_oneof![
        4 => 0.0f32..=1.0,
        // a small alphabet of exact levels, so that different stretches and presses often share bit-identical samples
        3 => (0u8..=16).prop_map(|k| k as f32 / 16.0),
        1 => Just(0.0f32),
        1 => Just(1.0f32),
    ]
    .boxed()
}

fn seg() -> BoxedStrategy<Seg> {
    (
        run_len(),
        level(),
        proptest::option::of(level()),
        prop_oneof![1 => Just(0.0f32), 1 => 0.0f32..0.2],
        any::<u32>(),
        0u8..3,
        0.0f32..=1.0,
        prop_oneof![2 => Just(0u16), 1 => Just(1u16), 2 => 2u16..50, 1 => 100u16..2000],
        (any::<u32>(), prop_oneof![2 => Just(0u8), 1 => Just(1u8)], proptest::bool::weighted(0.4)),
    )
        .prop_map(|(len, level, l2, noise, noise_key, gap, gap_level, poll_every, (alt_key, pattern, gap_edge))| Seg {
            len,
            level,
            level2: l2.unwrap_or(level),
            noise,
            noise_key,
            gap,
            gap_level,
            poll_every,
            alt_key,
            pattern,
            gap_edge,
        })
        .boxed()
}

pub fn ribbon_case(max_segs: usize) -> BoxedStrategy<RibbonCase> {
    (prop_oneof![2 => 0u16..24, 3 => 0u16..(RATES.len() as u16)], 0u8..4, 0.0f32..=1.0, log_uniform(1.0, 1000.0), proptest::collection::vec(seg(), 1..=max_segs), proptest::option::weighted(0.03, 0u8..6),
        // one value within 3 f32 steps of the documented boundary for the gaps marked gap_edge (C15-only runs; 0 = exactly on it)
        proptest::option::weighted(0.2, prop_oneof![3 => Just(0i8), 2 => -3i8..=3]))
        .prop_map(|(rate_idx, softpot_idx, dropper_frac, pullup_factor, mut segs, huge, edge_ulps)| {
            // occasionally one very long unbroken press (kept to the cheaper sample rates: the controller re-averages
            // its whole window on every sample)
            let mut rate_idx = rate_idx;
            // occasionally one short segment repeated many times (hundreds of taps / glitches in a row)
            if huge.is_none() && softpot_idx == 0 && (pullup_factor as u32) % 7 == 0 {
                let reps = [255usize, 256, 257, 300, 64][(dropper_frac * 4.99) as usize % 5];
                let mut s0 = segs[0].clone();
                if !matches!(s0.len, RunLen::Glitch(_) | RunLen::Tap(_)) {
                    s0.len = RunLen::Glitch(2);
                }
                if let RunLen::Tap(f) = s0.len {
                    s0.len = RunLen::Tap(f.min(0.2));
                }
                let cheap = [0u16, 1, 2, 3, 4, 5, 6, 7, 16, 17, 18, 19, 20];
                rate_idx = cheap[rate_idx as usize % cheap.len()];
                let mut burst = vec![s0; reps];
                burst.extend(segs.drain(..));
                segs = burst;
            }
            if let Some(k) = huge {
                let cheap = [0u16, 1, 2, 3, 4, 5, 6, 7, 16, 17, 18, 19, 20];
                rate_idx = cheap[rate_idx as usize % cheap.len()];
                let at = (k as usize) % segs.len();
                segs[at].len = RunLen::Huge(k);
                segs[at].poll_every = [0u16, 1000, 4096][k as usize % 3];
            }
            RibbonCase { rate_idx, softpot_idx, dropper_frac, pullup_factor, segs, edge_ulps }
        })
        .boxed()
}

pub fn perturb_case() -> BoxedStrategy<PerturbCase> {
    (ribbon_case(1), 0.0f32..2.0, 0.0f32..1.0, 0.0f32..=1.0, any::<u32>())
        .prop_map(|(base, extra, which, raise, newest_key)| PerturbCase { base, extra, which, raise, newest_key })
        .boxed()
}

pub fn replay(property: &str, engine: &str, case: &Value) -> Result<(), Failure> {
    let mut st = Stats::default();
    let dec = |e: serde_json::Error| Failure::new("replay_decode", 0, e.to_string());
    match engine {
        "ribbon_history" => {
            let c: RibbonCase = serde_json::from_value(case.clone()).map_err(dec)?;
            let mask = match property {
                "C15" => C15,
                "C16" => C16,
                _ => 3,
            };
            run_case(&c, mask, &mut st).map(|_| ())
        }
        "ribbon_perturb" => {
            let c: PerturbCase = serde_json::from_value(case.clone()).map_err(dec)?;
            run_perturb(&c, &mut st).map(|_| ())
        }
        _ => Err(Failure::new("replay_unknown_engine", 0, engine.to_string())),
    }
}

const GEN: &str = "proptest histories: one of 424 compile-time sample rates (every multiple of 500 Hz up to 192 kHz, audio-family rates, powers of two, neighbours of the ms boundaries; 100 Hz .. 192 kHz, buffer sized by sample_rate_to_capacity), resistor triple (softpot in {5k,10k,20k,100k}, dropper in [100, softpot/5], pull-up = [1,1000] x divider, log-uniform), 1..8 segments = in-range run (length from {1-5 glitch, U[1,L*-1] tap, L*-1, L*, L*+1, up to L*+3*capacity}; level/ramp/noise per run; samples at least 1e-3 inside the in-range interval) followed by 1-3 out-of-range samples (at least 1e-3 outside; in C15 runs 20% of the cases instead put one value within 3 f32 steps of the documented boundary 1 - dropper/(dropper+softpot) - half of them exactly on it - into 40% of their gaps: the controller may read that value as in range or as out of range, but the whole history has to match one of the two readings); edge getters polled every k samples (k from {end only, 1, 2-49, 100-1999}); L* = measured capture length of a fresh controller, must be capacity + settling (-1); ";

pub fn c15(quick: bool, seed: u64) -> Outcome {
    let mut o = Outcome::new(&format!("{}model: r = length of the current unbroken in-range run, finger_is_pressing() == (r >= L*) after every sample, two latches for the edge getters. non-trivial = history with >= 2 runs in which a run shorter than L* precedes another run and >= 1 press is reported; distinct by hash", GEN));
    o.assumptions.push("samples are at least 1e-3 away from the in-range boundary, except the single near-boundary gap value of a case, whose side is not prescribed (only that it has one); integer sample rates from the compiled set".into());
    let cases = if quick { 20_000 } else { 150_000 };
    let part = pt_run("ribbon_history", || ribbon_case(8), cases, seed, 15, 1500, |c, st| run_case(c, C15, st).map(|i| i.nontrivial));
    o.absorb(part);
    o
}

pub fn c16(quick: bool, seed: u64) -> Outcome {
    let mut o = Outcome::new(&format!("{}while the model says pressed: |value() - reference| <= 1e-5 + capacity*2^-23 with the reference computed in f64 from the samples of the current run only (oldest capacity-discard of the last capacity samples -> mean -> pull-up correction -> rescale), value in [0,1] and between the corrected min/max; while not pressed value() is bit-identical to the last pressed value. Metamorphic re-runs: (a) all samples of earlier runs replaced => bit-identical value() during the last press; (b) the newest `discard` samples replaced => bit-identical; (c) one contributing sample raised => value not smaller (strictly larger for windows <= 64). non-trivial = pressed polls after the ring buffer wrapped within the press in a history whose previous run was at a level differing by > 0.1 (histories) / press longer than L* (perturbation cases); distinct by hash", GEN));
    o.assumptions.push("pull-up >= divider resistance; samples never closer than 1e-3 to the in-range boundary".into());
    let cases = if quick { 10_000 } else { 40_000 };
    let part = pt_run("ribbon_history", || ribbon_case(6), cases, seed, 16, 1500, |c, st| run_case(c, C16, st).map(|i| i.nontrivial));
    o.absorb(part);
    let cases = if quick { 12_000 } else { 50_000 };
    let part = pt_run("ribbon_perturb", perturb_case, cases, seed, 161, 1500, |c, st| run_perturb(c, st).map(|i| i.nontrivial));
    o.absorb(part);
    o
}
