//! C01, C02, C03 (shared generator + interpreter) and the ADSR twin part of C20

use crate::runner::*;
use crate::strat::*;
use proptest::prelude::*;
use serde_json::json;
use vcore::adsr::*;
use vcore::common::*;

fn adsr_op(fs: f32) -> BoxedStrategy<AdsrOp> {
    prop_oneof![
        5 => Just(AdsrOp::GateOn),
        3 => Just(AdsrOp::GateOff),
        6 => prop_oneof![
            3 => (1u32..=4).prop_map(AdsrOp::Tick),
            3 => (1u32..=300).prop_map(AdsrOp::Tick),
            1 => (1u32..=20_000).prop_map(AdsrOp::Tick),
        ],
        5 => (0.0f32..1.3f32).prop_map(AdsrOp::TickFrac),
        3 => (0.0f32..0.999f32).prop_map(AdsrOp::Seek),
        2 => adsr_time(fs).prop_map(AdsrOp::SetAttack),
        2 => adsr_time(fs).prop_map(AdsrOp::SetDecay),
        2 => adsr_time(fs).prop_map(AdsrOp::SetRelease),
        3 => sustain_level().prop_map(AdsrOp::SetSustain),
        2 => prop_oneof![3 => 0.2f32..1.5, 1 => Just(1.0f32), 1 => Just(2.0f32)].prop_map(AdsrOp::CutShort),
        1 => (proptest::sample::select(vec![255u16, 256, 257, 300, 512, 40, 3]), 0u8..6).prop_map(|(n, ticks)| AdsrOp::GateBurst { n, ticks }),
        1 => prop_oneof![
            3 => (0u8..3, adsr_time(fs), adsr_time(fs)).prop_map(|(w, a, b)| (w, a, b)),
            1 => (sustain_level(), sustain_level()).prop_map(|(a, b)| (3u8, a, b)),
        ]
        .prop_flat_map(|(which, a, b)| proptest::sample::select(vec![255u16, 256, 257, 511, 512, 20, 3]).prop_map(move |n| AdsrOp::ParamBurst { which, a, b, n })),
        2 => (0u8..3, 0u8..3, prop_oneof![Just(0.0f32), -1e-3f32..1e-3, -1e-5f32..1e-5, Just(1e-6f32), Just(-1e-6f32), Just(2e-4f32), Just(-2e-4f32)]).prop_map(|(dst, src, rel)| AdsrOp::NudgeTime { dst, src, rel }),
    ]
    .boxed()
}

pub fn adsr_case() -> BoxedStrategy<AdsrCase> {
    sample_rate(192_000.0)
        .prop_flat_map(|fs| (Just(fs), proptest::collection::vec(adsr_op(fs), 1..60)))
        .prop_map(|(fs, ops)| AdsrCase { fs, ops })
        .boxed()
}

/// configurations for the duration sweeps: complete gate-on -> sustain -> gate-off -> rest runs,
/// products T*fs < 1 (phase shorter than one sample) over-weighted
pub fn adsr_config_case() -> BoxedStrategy<AdsrCase> {
    sample_rate(192_000.0)
        .prop_flat_map(|fs| {
            let t = move || {
                prop_oneof![
                    3 => (0.05f64..1.0).prop_map(move |k| ((k / fs as f64) as f32).max(0.001)),
                    2 => (1.0f64..4.0).prop_map(move |k| ((k / fs as f64) as f32).max(0.001)),
                    1 => Just(0.001f32),
                    2 => proptest::sample::select(vec![0.5f32, 1.0, 2.0, 4.0]).prop_map(move |k| (k / fs).max(0.001)),
                    2 => log_uniform(0.001, 0.2),
                    1 => wild_finite(),
                ]
            };
            (Just(fs), t(), t(), t(), sustain_level())
        })
        .prop_map(|(fs, a, d, r, s)| AdsrCase {
            fs,
            ops: vec![
                AdsrOp::SetAttack(a),
                AdsrOp::SetDecay(d),
                AdsrOp::SetRelease(r),
                AdsrOp::SetSustain(s),
                AdsrOp::GateOn,
                AdsrOp::TickFrac(1.1),
                AdsrOp::Tick(3),
                AdsrOp::TickFrac(1.1),
                AdsrOp::Tick(3),
                AdsrOp::GateOff,
                AdsrOp::TickFrac(1.1),
                AdsrOp::Tick(3),
            ],
        })
        .boxed()
}

const RULE: &str = "proptest histories: sample rate (log-uniform [100 Hz,192 kHz], integer and not, plus 100/999/1000/1001/44.1k/48k/96k/192k) + 1..60 ops from {gate_on, gate_off, tick(n) n in 1-4 | 1-300 | 1-20000, tick-to-fraction q of the current phase (q in [0,1.3)), seek (shorten the running phase's time, tick, restore: legal calls that place the phase counter anywhere in few ticks), set attack/decay/release (log-uniform [1 ms,20 s], < 5 samples, 0.3-2.5 samples, the bounds, out-of-range/huge/subnormal/NaN/inf), set sustain (U[0,1], 0, 1, -0, out of range, NaN), cut the running phase short, nudged copies of another phase's time, bursts of 3..512 notes, bursts of 3..512 writes of one parameter with no tick in between}; the oracle runs after every tick and every call; ";

pub fn replay(case: &serde_json::Value, mask: u32) -> Result<(), Failure> {
    let c: AdsrCase = serde_json::from_value(case.clone()).map_err(|e| Failure::new("replay_decode", 0, e.to_string()))?;
    let mut st = Stats::default();
    run_case(&c, mask, 50_000_000, &mut st).map(|_| ())
}

/// the slowest legal configuration driven through attack, decay and release completely (thorough tier)
fn slowest_config(mask: u32, st: &mut Stats) -> Result<(), (serde_json::Value, Failure)> {
    let case = AdsrCase {
        fs: 192_000.0,
        ops: vec![
            AdsrOp::SetAttack(20.0),
            AdsrOp::SetDecay(20.0),
            AdsrOp::SetRelease(20.0),
            AdsrOp::SetSustain(0.25),
            AdsrOp::GateOn,
            AdsrOp::TickFrac(1.2),
            AdsrOp::TickFrac(1.2),
            AdsrOp::Tick(10),
            AdsrOp::GateOff,
            AdsrOp::TickFrac(1.2),
            AdsrOp::Tick(10),
        ],
    };
    run_case(&case, mask, 40_000_000, st).map(|_| ()).map_err(|f| (serde_json::to_value(&case).unwrap(), f))
}

fn run(mask: u32, quick: bool, seed: u64, stream: u64, rule_tail: &str) -> Outcome {
    let mut o = Outcome::new(&format!("{}{}", RULE, rule_tail));
    o.assumptions.push("hooks Adsr::verif_state()/verif_phase_bits() report the current phase and the raw 24-bit phase counter".into());
    o.assumptions.push("documented curves = closed forms of non_rust_utils/lookup_table_gen.py defaults (attack target 3, 4 time constants)".into());
    let (cases, budget) = if quick { (40_000, 200_000u64) } else { (160_000, 4_000_000u64) };
    let part = pt_run("adsr_history", adsr_case, cases, seed, stream, if quick { 3000 } else { 1500 }, |c, st| {
        run_case(c, mask, budget, st).map(|i| i.nontrivial)
    });
    o.absorb(part);
    if !quick && !o.failed() {
        let part = par_chunks("adsr_history", 1, 1, |_, _, st| slowest_config(mask, st));
        o.stats.count("slowest_configuration_runs", 1);
        o.absorb(part);
    }
    o
}

pub fn c01(quick: bool, seed: u64) -> Outcome {
    run(C01, quick, seed, 1, "C01 oracle: range, exact levels, monotonicity, |value - documented curve| <= 0.005 with the abscissa taken (a) from the hook phase counter and (b) from the time elapsed in the phase (k ticks at N = T*fs ticks per phase, +- one tick), by-contract sustain / rest levels; non-trivial = history with >= 1 re-trigger or release from a level strictly inside (0.01,0.99) and >= 100 ticks checked against the documented curve in timed phases; distinct by hash of the history")
}

pub fn c02(quick: bool, seed: u64) -> Outcome {
    let mut o = run(C02, quick, seed, 2, "non-trivial = history in which >= 1 timed phase is observed from its start to its end and >= 1 gate event arrives inside a timed phase; distinct by hash of the history. Plus generated configurations (fs, times with T*fs < 1 over-weighted) run gate-on -> sustain -> gate-off -> rest under the tick allowance");
    // durations of complete phases over the (fs x T) plane, short phases over-weighted
    let cases = if quick { 40_000 } else { 300_000 };
    let part = pt_run("adsr_history", adsr_config_case, cases, seed, 22, 2000, |c, st| {
        run_case(c, C02, 200_000, st).map(|_| {
            let fs = c.fs;
            let sub = c.ops.iter().any(|op| match op {
                AdsrOp::SetAttack(t) | AdsrOp::SetDecay(t) | AdsrOp::SetRelease(t) => model_time(*t) * fs < 1.0,
                _ => false,
            });
            if sub {
                st.count("label.config_with_phase_shorter_than_a_sample", 1);
            }
            sub
        })
    });
    o.absorb(part);
    o.stats.samples.push(json!({"config": {"fs": 999.0, "attack": 0.001, "decay": 0.001, "release": 0.001, "sustain": 1.0}}));
    o
}

pub fn c03(quick: bool, seed: u64) -> Outcome {
    run(C03, quick, seed, 3, "non-trivial = history with >= 50 ticks whose phase step is < 1/4096 (several ticks inside one of the 1024 table cells) and >= 1 gate call at a level in (0.01,0.99); distinct by hash of the history")
}
