//! C17

use crate::runner::*;
use crate::strat::*;
use proptest::prelude::*;
use serde_json::Value;
use vcore::api::*;
use vcore::common::*;

fn fs_any() -> BoxedStrategy<f32> {
    prop_oneof![3 => sample_rate(192_000.0), 1 => Just(100.0f32), 1 => Just(192_000.0f32)].boxed()
}

fn finite_time() -> BoxedStrategy<f32> {
    prop_oneof![3 => log_uniform(0.0005, 40.0), 3 => wild_finite(), 1 => Just(0.001f32), 1 => Just(20.0f32)].boxed()
}

fn adsr_calls() -> BoxedStrategy<ApiCase> {
    let call = prop_oneof![
        3 => Just(AdsrCall::GateOn),
        2 => Just(AdsrCall::GateOff),
        4 => (0u16..400).prop_map(AdsrCall::Tick),
        2 => finite_time().prop_map(AdsrCall::Attack),
        2 => finite_time().prop_map(AdsrCall::Decay),
        2 => finite_time().prop_map(AdsrCall::Release),
        2 => prop_oneof![2 => -0.5f32..1.5, 2 => wild_finite()].prop_map(AdsrCall::Sustain),
        1 => Just(AdsrCall::Value),
    ];
    (fs_any(), proptest::collection::vec(call, 0..200)).prop_map(|(fs, calls)| ApiCase::Adsr { fs, calls }).boxed()
}

fn lfo_calls() -> BoxedStrategy<ApiCase> {
    fs_any()
        .prop_flat_map(|fs| {
            let call = prop_oneof![
                4 => (0u16..400).prop_map(LfoCall::Tick),
                3 => prop_oneof![3 => 0.0f32..=1.0, 1 => Just(1.0f32), 1 => Just(0.0f32)].prop_map(LfoCall::FreqFrac),
                2 => prop_oneof![Just(fs), Just(f32::from_bits(fs.to_bits() - 1)), Just(1e-45f32), Just(f32::MIN_POSITIVE), Just(0.0f32), Just(-0.0f32), log_uniform(1e-6, fs as f64)].prop_map(LfoCall::Freq),
                3 => prop_oneof![
                    2 => -1000.0f32..1000.0,
                    3 => wild_finite(),
                    // just below / at whole cycles, and the first values beyond the integer ranges of u32 / 24 bits
                    2 => proptest::sample::select(vec![0.99999994f32, -0.99999994, 1.0, -1.0, 0.5, 0.9999999, 1.9999999, 255.99998, 16_777_216.0, 16_777_215.0, 4_294_967_296.0, 4.3e9, -4.3e9, 4_294_967_808.0]),
                ]
                .prop_map(LfoCall::Phase),
                1 => Just(LfoCall::Reset),
                3 => (0u8..5).prop_map(LfoCall::Get),
            ];
            (Just(fs), proptest::collection::vec(call, 0..200))
        })
        .prop_map(|(fs, calls)| ApiCase::Lfo { fs, calls })
        .boxed()
}

fn glide_calls() -> BoxedStrategy<ApiCase> {
    let t = prop_oneof![
        3 => 0.0f32..=10.0,
        1 => Just(0.0f32),
        2 => prop_oneof![Just(1e30f32), Just(f32::MAX), Just(1e-45f32), Just(f32::MIN_POSITIVE), Just(1e-20f32), Just(10.0f32), Just(1000.0f32), Just(-0.0f32)],
        1 => log_uniform(1e-9, 1e9),
    ];
    let x = prop_oneof![4 => -10.0f32..=10.0, 1 => prop_oneof![Just(0.0f32), Just(1e-40f32), Just(-1e-38f32), Just(10.0f32), Just(-10.0f32)], 1 => tiny_f32()];
    let call = prop_oneof![
        3 => t.prop_map(GlideCall::SetTime),
        1 => (prop_oneof![3 => Just(2u8), 2 => 1u8..=4, 1 => Just(8u8), 1 => Just(100u8)], prop_oneof![2 => Just(0i8), 1 => -2i8..=2]).prop_map(|(k, ulps)| GlideCall::SetTimeSamples { k, ulps }),
        3 => x.clone().prop_map(GlideCall::Process),
        2 => (x, 0u16..500).prop_map(|(v, n)| GlideCall::ProcessN(v, n)),
    ];
    (fs_any(), proptest::collection::vec(call, 0..200)).prop_map(|(fs, calls)| ApiCase::Glide { fs, calls }).boxed()
}

fn quant_calls() -> BoxedStrategy<ApiCase> {
    let v = prop_oneof![
        3 => -1.0f32..11.0,
        2 => any::<u32>().prop_map(f32::from_bits),
        2 => prop_oneof![Just(f32::NAN), Just(f32::INFINITY), Just(f32::NEG_INFINITY), Just(f32::MAX), Just(f32::MIN), Just(-0.0f32), Just(1e-45f32), Just(10.0f32), Just(4294.9673f32), Just(4294.968f32)],
    ];
    let list = proptest::collection::vec(any::<u8>(), 0..14);
    let call = prop_oneof![
        6 => v.prop_map(QuantCall::Convert),
        2 => list.clone().prop_map(QuantCall::Allow),
        3 => list.prop_map(QuantCall::Forbid),
        1 => any::<u8>().prop_map(QuantCall::IsAllowed),
    ];
    proptest::collection::vec(call, 0..200).prop_map(|calls| ApiCase::Quant { calls }).boxed()
}

fn ribbon_calls() -> BoxedStrategy<ApiCase> {
    let v = prop_oneof![4 => 0.0f32..=1.0, 1 => Just(0.0f32), 1 => Just(1.0f32), 1 => Just(1e-45f32), 1 => Just(0.99999994f32)];
    let call = prop_oneof![
        4 => v.clone().prop_map(RibbonCall::Poll),
        3 => (v, 0u16..4000).prop_map(|(x, n)| RibbonCall::PollN(x, n)),
        2 => (-40i8..=8, prop_oneof![1 => 0u16..50, 2 => 200u16..4000]).prop_map(|(u, n)| RibbonCall::PollNearBoundary(u, n)),
        1 => Just(RibbonCall::Value),
        1 => Just(RibbonCall::Pressing),
        1 => Just(RibbonCall::JustPressed),
        1 => Just(RibbonCall::JustReleased),
    ];
    (0u16..(vcore::ribbon::RATES.len() as u16), 0u8..4, prop_oneof![3 => 0.0f32..=1.0, 1 => Just(0.0362f32), 1 => Just(0.0f32), 1 => Just(1.0f32)], log_uniform(1.0, 1000.0), proptest::collection::vec(call, 0..60))
        .prop_map(|(rate_idx, softpot_idx, dropper_frac, pullup_factor, calls)| ApiCase::Ribbon { rate_idx, softpot_idx, dropper_frac, pullup_factor, calls })
        .boxed()
}

fn midi_calls() -> BoxedStrategy<ApiCase> {
    let call = prop_oneof![
        6 => proptest::collection::vec(any::<u8>(), 0..24).prop_map(MidiCall::Bytes),
        1 => any::<u8>().prop_map(MidiCall::Priority),
        1 => any::<bool>().prop_map(MidiCall::Retrigger),
        1 => Just(MidiCall::Getters),
        1 => Just(MidiCall::Edges),
    ];
    (any::<u8>(), proptest::collection::vec(call, 0..200)).prop_map(|(channel, calls)| ApiCase::Midi { channel, calls }).boxed()
}

fn liveness() -> BoxedStrategy<ApiCase> {
    fs_any()
        .prop_flat_map(|fs| {
            let t = move || {
                prop_oneof![
                    4 => (0.02f64..1.0).prop_map(move |k| (k / fs as f64) as f32),
                    2 => proptest::sample::select(vec![0.5f32, 1.0, 2.0, 4.0]).prop_map(move |k| k / fs),
                    2 => (1.0f64..4.0).prop_map(move |k| (k / fs as f64) as f32),
                    1 => Just(0.001f32),
                    2 => log_uniform(0.001, 0.05),
                    1 => wild_finite(),
                ]
            };
            (Just(fs), t(), t(), t(), prop_oneof![3 => 0.0f32..=1.0, 1 => wild_finite()])
        })
        .prop_map(|(fs, att, dec, rel, sus)| ApiCase::Liveness { fs, att, dec, rel, sus })
        .boxed()
}

/// well-formed MIDI traffic (the structured generator of the MIDI checks: chords up to 32 keys, repeated strikes, bursts,
/// long SysEx ...) fed through the byte API in chunks, with getters and edge polls in between
fn midi_structured_calls() -> BoxedStrategy<ApiCase> {
    (crate::p_midi::stream_case_structured(), 1usize..24, any::<u8>())
        .prop_map(|(c, chunk, p)| {
            let mut calls = vec![MidiCall::Priority(p), MidiCall::Retrigger(p % 2 == 0)];
            for (i, ch) in c.bytes.chunks(chunk).enumerate() {
                calls.push(MidiCall::Bytes(ch.to_vec()));
                if i % 5 == 4 {
                    calls.push(MidiCall::Getters);
                    calls.push(MidiCall::Edges);
                }
            }
            ApiCase::Midi { channel: c.channel, calls }
        })
        .boxed()
}

pub fn api_case() -> BoxedStrategy<ApiCase> {
    prop_oneof![2 => adsr_calls(), 2 => lfo_calls(), 2 => glide_calls(), 2 => quant_calls(), 1 => ribbon_calls(), 2 => midi_calls(), 2 => midi_structured_calls(), 3 => liveness()].boxed()
}

pub fn replay(case: &Value) -> Result<(), Failure> {
    let c: ApiCase = serde_json::from_value(case.clone()).map_err(|e| Failure::new("replay_decode", 0, e.to_string()))?;
    let mut st = Stats::default();
    run_case(&c, &mut st).map(|_| ())
}

pub fn c17(quick: bool, seed: u64) -> Outcome {
    let mut o = Outcome::new(
        "proptest API cases for all six modules: constructor arguments in the documented ranges (sample rates in [100 Hz,192 kHz] incl. both ends; ribbon: 24 compiled rates with helper-sized buffers and resistor triples; MIDI channel any u8) + 0..200 calls with arguments from range end points, subnormals, +-0, huge finite values and - where the statement allows - NaN/inf (quantizer inputs), MIDI bytes uniform 0..=255, ribbon samples in [0,1] incl. both ends, glide times >= 0 incl. 0/subnormal/1e30/f32::MAX, LFO frequencies in [0,fs] incl. both ends and phases of any finite value; every call runs under catch_unwind in a build with overflow-checks and debug-assertions on (any unwind = violation with the call index); in addition the case generators of all other checks (ADSR, LFO, quantizer, MIDI, glide, ribbon histories incl. their boundary classes) are executed with every oracle switched off, so that any panic they can reach is reported here too (envelope parameters made finite to stay in C17's domain). Bounded liveness: generated envelope configurations (T*fs < 1 over-weighted) must reach exactly the sustain level after gate-on and exactly 0 after gate-off within 2*(N/(1-N/2^24)+2) ticks per phase. non-trivial = case with >= 1 extreme argument (end point / non-finite / subnormal / zero / |x| >= 1e9 / raw MIDI bytes) and >= 20 calls, or a liveness case with a phase shorter than one sample or an extreme parameter; distinct by hash",
    );
    o.assumptions.push("harness profile: opt-level 3, overflow-checks = on, debug-assertions = on (also for synth-utils and its dependencies)".into());
    o.assumptions.push("'fails to return' is decided as bounded liveness of the envelope; every other public operation is loop-free or bounded by the buffer capacity".into());
    let cases = if quick { 200_000 } else { 2_000_000 };
    let part = pt_run("api_any", api_case, cases, seed, 17, 4000, |c, st| run_case(c, st).map(|i| i.nontrivial));
    o.absorb(part);
    // every other check's case generator, run through its interpreter with all oracles off: only an unwind counts
    // (the runner turns a panic into a failure of the case). Arguments stay inside C17's domain: envelope times and
    // sustain levels are made finite, everything else already is.
    let n = if quick { 12_000 } else { 300_000 };
    let only_panic = |r: Result<bool, Failure>| -> Result<bool, Failure> {
        match r {
            Err(f) if f.rule.contains("panic") => Err(f),
            _ => Ok(false), // counted as evaluations, not as non-trivial cases of C17
        }
    };
    let finite = |c: &vcore::adsr::AdsrCase| -> vcore::adsr::AdsrCase {
        use vcore::adsr::AdsrOp::*;
        let fix = |x: f32| if x.is_finite() { x } else { 0.5 };
        vcore::adsr::AdsrCase {
            fs: c.fs,
            ops: c.ops.iter().map(|op| match op {
                SetAttack(t) => SetAttack(fix(*t)),
                SetDecay(t) => SetDecay(fix(*t)),
                SetRelease(t) => SetRelease(fix(*t)),
                SetSustain(t) => SetSustain(fix(*t)),
                ParamBurst { which, a, b, n } => ParamBurst { which: *which, a: fix(*a), b: fix(*b), n: *n },
                o => o.clone(),
            }).collect(),
        }
    };
    let part = pt_run("adsr_history", crate::p_adsr::adsr_case, n, seed, 171, 2000, |c, st| only_panic(vcore::adsr::run_case(&finite(c), 0, 100_000, st).map(|_| true)));
    o.absorb(part);
    let part = pt_run("lfo_history", crate::p_lfo::lfo_case, n, seed, 172, 2000, |c, st| only_panic(vcore::lfo::run_case(c, 0, 200_000, st).map(|_| true)));
    o.absorb(part);
    let part = pt_run("quant_history", crate::p_quant::quant_case, n, seed, 173, 2000, |c, st| only_panic(vcore::quant::run_case(c, 0, st).map(|_| true)));
    o.absorb(part);
    let part = pt_run("midi_model", crate::p_midi::case_c04, n, seed, 174, 2000, |c, st| only_panic(vcore::midi::run_case(c, 0, st).map(|_| true)));
    o.absorb(part);
    let part = pt_run("glide_c13", crate::p_glide::glide_case, n, seed, 175, 2000, |c, _st| {
        vcore::glide::run_plain(c, 100_000);
        Ok(false)
    });
    o.absorb(part);
    let part = pt_run("ribbon_history", || crate::p_ribbon::ribbon_case(6), n / 4, seed, 176, 1000, |c, st| only_panic(vcore::ribbon::run_case(c, 0, st).map(|_| true)));
    o.absorb(part);
    o
}
