//! vcheck: `vcheck <ID> quick|thorough` runs the property check and writes /verif/evidence/<ID>.json;
//! `vcheck replay <file>` re-executes a stored counterexample without proptest.
//!
//! Exit codes: 0 property held on everything explored (known findings are printed as KNOWN-FINDING lines),
//! 1 violation (a line `VIOLATION property=<ID> replay=<path>`), 2 inconclusive (usage / internal error).

mod fuzz;
mod p_adsr;
mod p_api;
mod p_clamp;
mod p_clamp_ext;
mod p_glide;
mod p_lfo;
mod p_midi;
mod p_quant;
mod p_ribbon;
mod runner;
mod strat;

use runner::*;
use serde_json::{json, Value};
use std::path::PathBuf;
use std::time::Instant;
use vcore::common::*;

fn verif_dir() -> PathBuf {
    std::env::var("VERIF_DIR").map(PathBuf::from).unwrap_or_else(|_| PathBuf::from("/verif"))
}

fn seed() -> u64 {
    std::env::var("VERIF_SEED").ok().and_then(|s| s.trim().parse::<i64>().ok()).map(|v| v as u64).unwrap_or(1)
}

struct Known {
    property: String,
    signature: String,
    text: String,
}

fn known_findings() -> Vec<Known> {
    let p = verif_dir().join("known_findings.txt");
    let mut v = vec![];
    if let Ok(s) = std::fs::read_to_string(p) {
        for line in s.lines() {
            let line = line.trim();
            if let Some(rest) = line.strip_prefix("known:") {
                let mut prop = String::new();
                let mut sig = String::new();
                for tok in rest.split_whitespace() {
                    if let Some(x) = tok.strip_prefix("property=") {
                        prop = x.to_string();
                    }
                    if let Some(x) = tok.strip_prefix("signature=") {
                        sig = x.to_string();
                    }
                }
                if !prop.is_empty() && !sig.is_empty() {
                    v.push(Known { property: prop, signature: sig, text: rest.trim().to_string() });
                }
            }
        }
    }
    v
}

fn dispatch(id: &str, quick: bool, seed: u64) -> Option<(Outcome, u64)> {
    let o = match id {
        "C01" => p_adsr::c01(quick, seed),
        "C02" => p_adsr::c02(quick, seed),
        "C03" => p_adsr::c03(quick, seed),
        "C04" => p_midi::c04(quick, seed),
        "C05" => p_midi::c05(quick, seed),
        "C06" => p_midi::c06(quick, seed),
        "C18" => p_midi::c18(quick, seed),
        "C17" => p_api::c17(quick, seed),
        "C13" => p_glide::c13(quick, seed),
        "C15" => p_ribbon::c15(quick, seed),
        "C16" => p_ribbon::c16(quick, seed),
        "C14" => p_glide::c14(quick, seed),
        "C07" => p_quant::c07(quick, seed),
        "C08" => p_quant::c08(quick, seed),
        "C09" => p_quant::c09(quick, seed),
        "C19" => p_quant::c19(quick, seed),
        "C10" => p_lfo::c10(quick, seed),
        "C11" => p_lfo::c11(quick, seed),
        "C12" => p_lfo::c12(quick, seed),
        "C20" => p_clamp::c20(quick, seed),
        _ => return None,
    };
    let mut o = o;
    if !quick && !o.failed() {
        // coverage-guided campaign on the libFuzzer target that decodes into the same case type (thorough tier only)
        let camp = match id {
            "C01" | "C02" | "C03" => Some(("adsr_ops", 20_000u64, 400usize)),
            "C04" | "C05" | "C18" => Some(("midi_model", 100_000, 1200)),
            "C06" => Some(("midi_stream", 80_000, 600)),
            "C07" | "C08" | "C09" | "C19" => Some(("quant_ops", 100_000, 1200)),
            "C13" => Some(("glide_ops", 30_000, 400)),
            "C15" | "C16" => Some(("ribbon_ops", 2_500, 200)),
            "C17" => Some(("api_any", 12_000, 1500)),
            _ => None,
        };
        if let Some((target, runs, max_len)) = camp {
            let prop: &'static str = Box::leak(id.to_string().into_boxed_str());
            let c = fuzz::Campaign { target, prop, runs_per_proc: runs, procs: 16, max_len };
            let part = fuzz::campaign(&c, seed);
            o.rule.push_str(&format!(" | thorough tier adds a libFuzzer campaign on target `{}` (16 processes x {} executions, fresh corpus seeded with random and hand-made inputs, -len_control=0, only this property's oracle armed); crash artifacts are re-decoded and re-judged in-process", target, runs));
            o.absorb(part);
        }
    }
    let nt = match id {
        "C10" => p_lfo::c10_nontrivial(&o),
        "C12" => p_lfo::c12_nontrivial(&o),
        "C20" => p_clamp::c20_nontrivial(&o),
        "C08" => p_quant::c08_nontrivial(&o),
        "C18" => p_midi::c18_nontrivial(&o),
        _ => o.stats.nontrivial.len() as u64,
    };
    Some((o, nt))
}

fn replay_engine(property: &str, engine: &str, case: &Value) -> Result<(), Failure> {
    match engine {
        "adsr_history" => {
            let mask = match property {
                "C01" => vcore::adsr::C01,
                "C02" => vcore::adsr::C02,
                "C03" => vcore::adsr::C03,
                _ => 7,
            };
            p_adsr::replay(case, mask)
        }
        "lfo_history" => {
            let mask = match property {
                "C10" => vcore::lfo::C10,
                "C11" => vcore::lfo::C11,
                "C12" => vcore::lfo::C12,
                _ => 7,
            };
            p_lfo::replay_history(case, mask)
        }
        "c10_sweep" => {
            let acc = case["phase_counter"].as_u64().unwrap_or(0) as u32;
            let mut st = Stats::default();
            vcore::lfo::sweep_c10(acc, acc + 1, 1, &mut st).map(|_| ())
        }
        "c12_walk" => {
            let w: p_lfo::WalkCase = serde_json::from_value(case.clone()).map_err(|e| Failure::new("replay_decode", 0, e.to_string()))?;
            let mut st = Stats::default();
            p_lfo::c12_walk(&w, &mut st).map(|_| ())
        }
        e if e.starts_with("c20_") => p_clamp::replay(e, case),
        e if e.starts_with("quant_") => p_quant::replay(property, e, case),
        e if e.starts_with("midi_") => p_midi::replay(property, e, case),
        e if e.starts_with("glide_") => p_glide::replay(e, case),
        "api_any" => p_api::replay(case),
        "fuzz_bytes" => {
            let target = case["target"].as_str().unwrap_or("");
            let bytes: Vec<u8> = case["bytes"].as_array().map(|a| a.iter().map(|x| x.as_u64().unwrap_or(0) as u8).collect()).unwrap_or_default();
            std::env::set_var("VFUZZ_PROP", property);
            vcore::decode::judge(target, &bytes).2
        }
        e if e.starts_with("ribbon_") => p_ribbon::replay(property, e, case),
        _ => Err(Failure::new("replay_unknown_engine", 0, format!("no replay handler for engine {}", engine))),
    }
}

fn write_replay(id: &str, seed: u64, tier: &str, f: &Found) -> PathBuf {
    let dir = verif_dir().join("replays").join(id);
    let _ = std::fs::create_dir_all(&dir);
    let body = json!({
        "property": id,
        "engine": f.engine,
        "seed": seed,
        "tier": tier,
        "case": f.case,
        "rule": f.failure.rule,
        "signature": f.failure.signature,
        "step": f.failure.step,
        "detail": f.failure.detail,
    });
    let h = fnv(format!("{}{}{}", f.engine, f.case, f.failure.rule).as_bytes());
    let path = dir.join(format!("{}-{:016x}.json", f.failure.rule.replace(|c: char| !c.is_ascii_alphanumeric() && c != '.', "_"), h));
    let _ = std::fs::write(&path, serde_json::to_string_pretty(&body).unwrap());
    path
}

fn main() {
    let args: Vec<String> = std::env::args().collect();
    if args.len() < 3 {
        eprintln!("usage: vcheck <ID> quick|thorough | vcheck replay <file>");
        std::process::exit(2);
    }
    // panics inside the code under test are caught and reported by the oracles; keep stderr quiet
    if std::env::var("VERIF_PANIC_TRACE").is_err() {
        std::panic::set_hook(Box::new(|_| {}));
    }

    if args[1] == "replay" {
        let text = match std::fs::read_to_string(&args[2]) {
            Ok(t) => t,
            Err(e) => {
                eprintln!("cannot read {}: {}", args[2], e);
                std::process::exit(2);
            }
        };
        let v: Value = match serde_json::from_str(&text) {
            Ok(v) => v,
            Err(e) => {
                eprintln!("cannot parse {}: {}", args[2], e);
                std::process::exit(2);
            }
        };
        let prop = v["property"].as_str().unwrap_or("");
        let engine = v["engine"].as_str().unwrap_or("");
        match replay_engine(prop, engine, &v["case"]) {
            Ok(()) => {
                println!("REPLAY property={} engine={} result=holds (the stored case no longer violates the property)", prop, engine);
                std::process::exit(0);
            }
            Err(f) if f.rule.starts_with("replay_") => {
                eprintln!("replay failed: {} {}", f.rule, f.detail);
                std::process::exit(2);
            }
            Err(f) => {
                println!("REPLAY property={} engine={} result=violates rule={} step={}", prop, engine, f.rule, f.step);
                println!("  {}", f.detail);
                println!("VIOLATION property={} replay={}", prop, args[2]);
                std::process::exit(1);
            }
        }
    }

    let id = args[1].as_str();
    let tier = args[2].as_str();
    let quick = match tier {
        "quick" => true,
        "thorough" => false,
        _ => {
            eprintln!("tier must be quick or thorough");
            std::process::exit(2);
        }
    };
    let seed = seed();
    let t0 = Instant::now();
    // regression tier: replay the committed counterexamples of this property first (no generation involved)
    let mut regress_found: Vec<Found> = vec![];
    let mut regress_n = 0u64;
    if let Ok(rd) = std::fs::read_dir(verif_dir().join("regress").join(id)) {
        let mut files: Vec<PathBuf> = rd.filter_map(|e| e.ok()).map(|e| e.path()).filter(|p| p.extension().map(|x| x == "json").unwrap_or(false)).collect();
        files.sort();
        for p in files {
            if let Ok(text) = std::fs::read_to_string(&p) {
                if let Ok(v) = serde_json::from_str::<Value>(&text) {
                    let engine = v["engine"].as_str().unwrap_or("").to_string();
                    regress_n += 1;
                    let verdict = match catch(|| replay_engine(id, &engine, &v["case"])) {
                        Ok(r) => r,
                        Err(msg) => Err(Failure::new("panic", 0, format!("replaying {} panicked: {}", p.display(), msg))),
                    };
                    if let Err(f) = verdict {
                        if !f.rule.starts_with("replay_") {
                            regress_found.push(Found { engine, case: v["case"].clone(), failure: f });
                        }
                    }
                }
            }
        }
    }
    let (o, nontrivial) = match dispatch(id, quick, seed) {
        Some(x) => x,
        None => {
            eprintln!("unknown property {}", id);
            std::process::exit(2);
        }
    };
    let mut o = o;
    o.stats.count("regression_replays", regress_n);
    o.found.extend(regress_found);
    let wall = t0.elapsed().as_secs_f64();

    // classify findings
    let known = known_findings();
    let mut violations = vec![];
    let mut known_hits = vec![];
    for f in &o.found {
        if let Some(k) = known.iter().find(|k| k.property == id && k.signature == f.failure.signature) {
            known_hits.push((k, f));
        } else {
            violations.push(f);
        }
    }

    // evidence
    let mut coverage = serde_json::Map::new();
    let evaluations = o.stats.cases + o.stats.get("sweep_evaluations");
    coverage.insert("evaluations".into(), json!(evaluations.max(1)));
    coverage.insert("distinct_nontrivial".into(), json!(nontrivial));
    coverage.insert("rule".into(), json!(o.rule));
    coverage.insert("samples".into(), json!(o.stats.samples));
    coverage.insert("exhaustive".into(), json!(o.exhaustive));
    if !o.exhaustive_note.is_empty() {
        coverage.insert("exhaustive_scope".into(), json!(o.exhaustive_note));
    }
    coverage.insert("generated_cases".into(), json!(o.stats.cases));
    coverage.insert("counters".into(), json!(o.stats.counters));
    coverage.insert("worst_observed_over_allowed".into(), json!(o.stats.headroom));
    if !o.stats.notes.is_empty() {
        coverage.insert("notes".into(), json!(o.stats.notes));
    }
    coverage.insert("workers".into(), json!(jobs()));
    if !known_hits.is_empty() {
        coverage.insert("known_findings_hit".into(), json!(known_hits.iter().map(|(k, _)| k.text.clone()).collect::<Vec<_>>()));
    }
    let ev = json!({
        "property_id": id,
        "tier": tier,
        "seed": seed as i64,
        "level": "exploration",
        "coverage": Value::Object(coverage),
        "assumptions": o.assumptions,
        "wall_s": wall,
        "violations": violations.len(),
    });
    let evdir = verif_dir().join("evidence");
    let _ = std::fs::create_dir_all(&evdir);
    if let Err(e) = std::fs::write(evdir.join(format!("{}.json", id)), serde_json::to_string_pretty(&ev).unwrap()) {
        eprintln!("cannot write evidence: {}", e);
        std::process::exit(2);
    }

    println!(
        "{} {} seed={} cases={} evaluations={} distinct_nontrivial={} wall={:.1}s",
        id, tier, seed, o.stats.cases, evaluations, nontrivial, wall
    );
    for (k, v) in &o.stats.headroom {
        println!("  worst observed/allowed {:<45} {:.6}", k, v);
    }
    for (k, f) in &known_hits {
        println!("KNOWN-FINDING: property={} {} [{}]", id, k.text, f.failure.detail);
    }
    if violations.is_empty() {
        std::process::exit(0);
    }
    for f in &violations {
        let path = write_replay(id, seed, tier, f);
        println!("  rule {} at step {}: {}", f.failure.rule, f.failure.step, f.failure.detail);
        println!("  case: {}", compact_sample(&f.case));
        println!("VIOLATION property={} replay={}", id, path.display());
    }
    std::process::exit(1);
}
