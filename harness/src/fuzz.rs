//! libFuzzer campaigns for the thorough tier: build the target with cargo-fuzz (nightly, offline), run a fixed number
//! of executions from a fresh corpus (seeded with a few valid inputs), re-judge any crash artifact in-process with the
//! same decoder/oracle and turn it into an ordinary replay file.

use crate::runner::*;
use std::path::{Path, PathBuf};
use std::process::Command;
use vcore::common::*;

fn fuzz_dir() -> PathBuf {
    std::env::var("VERIF_FUZZ_DIR")
        .map(PathBuf::from)
        .unwrap_or_else(|_| std::env::var("VERIF_DIR").map(PathBuf::from).unwrap_or_else(|_| PathBuf::from("/verif")).join("fuzz"))
}

fn seed_corpus(target: &str, seed: u64) -> Vec<Vec<u8>> {
    let mut v: Vec<Vec<u8>> = vec![];
    let mut mix = Mix(seed ^ fnv(target.as_bytes()));
    for len in [8usize, 24, 64, 160, 400, 1000] {
        for _ in 0..3 {
            v.push((0..len).map(|_| mix.next() as u8).collect());
        }
    }
    if target == "midi_stream" {
        // byte sequences in the style of the repository's own tests (header: channel, flags, poll mask)
        let hdr = |ch: u8| vec![ch, 0x40, 0xAA, 0x55];
        let mut a = hdr(1);
        a.extend_from_slice(&[0x91, 42, 127, 0x91, 43, 100, 0x81, 42, 0, 0x81, 43, 0]);
        v.push(a);
        let mut b = hdr(0);
        b.extend_from_slice(&[0x90, 60, 100, 61, 100, 62, 100, 60, 0, 0xF8, 61, 0, 0xB0, 123, 0]);
        v.push(b);
        let mut c = hdr(3);
        c.extend_from_slice(&[0xB3, 1, 64, 7, 100, 0xE3, 0, 64, 0xF0, 1, 2, 3, 0xF7, 0x93, 0xF8, 50, 0xFA, 90, 0x83, 50, 0]);
        v.push(c);
    }
    v
}

pub struct Campaign {
    pub target: &'static str,
    pub prop: &'static str,
    pub runs_per_proc: u64,
    pub procs: usize,
    pub max_len: usize,
}

/// returns (stats, found). Any infrastructure problem is recorded as a note (the proptest part of the check decides).
pub fn campaign(c: &Campaign, seed: u64) -> (Stats, Option<Found>) {
    let mut st = Stats::default();
    if std::env::var("VERIF_NO_FUZZ").is_ok() {
        st.note("libFuzzer campaign skipped (VERIF_NO_FUZZ set)".into());
        return (st, None);
    }
    let dir = fuzz_dir();
    let lock = dir.join("Cargo.lock");
    if !lock.exists() {
        let _ = std::fs::copy(dir.join("../Cargo.lock"), &lock);
    }
    let build = Command::new("cargo")
        .args(["+nightly", "fuzz", "build", c.target])
        .current_dir(&dir)
        .env("CARGO_NET_OFFLINE", "true")
        .output();
    match build {
        Ok(o) if o.status.success() => {}
        Ok(o) => {
            let err = String::from_utf8_lossy(&o.stderr);
            st.note(format!("libFuzzer target {} could not be built: {}", c.target, err.lines().rev().take(3).collect::<Vec<_>>().join(" | ")));
            return (st, None);
        }
        Err(e) => {
            st.note(format!("cargo fuzz not runnable: {}", e));
            return (st, None);
        }
    }
    let bin = dir.join("target/x86_64-unknown-linux-gnu/release").join(c.target);
    if !bin.exists() {
        st.note(format!("fuzz binary {} missing after build", bin.display()));
        return (st, None);
    }
    let work = dir.join("work").join(format!("{}-{}-{}", c.target, c.prop, std::process::id()));
    let _ = std::fs::remove_dir_all(&work);
    let mut handles = vec![];
    for p in 0..c.procs {
        let pdir = work.join(format!("p{}", p));
        let corpus = pdir.join("corpus");
        let _ = std::fs::create_dir_all(&corpus);
        for (i, s) in seed_corpus(c.target, seed.wrapping_add(p as u64)).iter().enumerate() {
            let _ = std::fs::write(corpus.join(format!("seed{:03}", i)), s);
        }
        let pseed = (splitmix(seed ^ (p as u64 + 1) * 0x9E37) % 2_000_000_000) + 1;
        let child = Command::new(&bin)
            .arg(&corpus)
            .arg(format!("-runs={}", c.runs_per_proc))
            .arg(format!("-seed={}", pseed))
            .arg("-len_control=0")
            .arg(format!("-max_len={}", c.max_len))
            .arg(format!("-artifact_prefix={}/", pdir.display()))
            .arg("-print_final_stats=1")
            .arg("-timeout=60")
            .arg("-rss_limit_mb=4096")
            .env("VFUZZ_PROP", c.prop)
            .current_dir(&pdir)
            .stdout(std::process::Stdio::null())
            // libFuzzer is chatty on stderr: send it to a file, a pipe that is only drained after exit would stall the process
            .stderr(std::fs::File::create(pdir.join("stderr.log")).map(std::process::Stdio::from).unwrap_or_else(|_| std::process::Stdio::null()))
            .spawn();
        handles.push((pdir, child));
    }
    let mut found: Option<Found> = None;
    for (pdir, child) in handles {
        let out = match child {
            Ok(ch) => ch.wait_with_output(),
            Err(e) => {
                st.note(format!("could not start the fuzz binary: {}", e));
                continue;
            }
        };
        let out = match out {
            Ok(o) => o,
            Err(e) => {
                st.note(format!("fuzz process failed: {}", e));
                continue;
            }
        };
        let err_bytes = std::fs::read(pdir.join("stderr.log")).unwrap_or_default();
        let err = String::from_utf8_lossy(&err_bytes);
        for line in err.lines() {
            if let Some(v) = line.strip_prefix("stat::number_of_executed_units:") {
                st.count("fuzz_executions", v.trim().parse().unwrap_or(0));
            }
            if let Some(v) = line.strip_prefix("stat::new_units_added:") {
                st.count("fuzz_corpus_units_added", v.trim().parse().unwrap_or(0));
            }
        }
        if let Some(cov) = err.lines().rev().find_map(|l| l.split("cov: ").nth(1).and_then(|r| r.split_whitespace().next()).and_then(|x| x.parse::<u64>().ok())) {
            let e = st.counters.entry("fuzz_edge_coverage_max".into()).or_insert(0);
            *e = (*e).max(cov);
        }
        if !out.status.success() && found.is_none() {
            // a crash / oracle violation / timeout: re-judge the artifact in-process
            let arts: Vec<PathBuf> = std::fs::read_dir(&pdir)
                .map(|rd| rd.filter_map(|e| e.ok()).map(|e| e.path()).filter(|p| p.file_name().map(|n| { let n = n.to_string_lossy(); n.starts_with("crash-") || n.starts_with("timeout-") || n.starts_with("oom-") || n.starts_with("leak-") }).unwrap_or(false)).collect())
                .unwrap_or_default();
            if arts.is_empty() {
                st.note(format!("fuzz process exited with {:?} but left no artifact", out.status.code()));
            }
            for a in arts {
                if let Some(f) = rejudge(c, &a, &mut st) {
                    found = Some(f);
                    break;
                }
            }
        }
    }
    st.count("sweep_evaluations", st.get("fuzz_executions"));
    let _ = std::fs::remove_dir_all(&work);
    (st, found)
}

fn rejudge(c: &Campaign, artifact: &Path, st: &mut Stats) -> Option<Found> {
    let name = artifact.file_name().map(|n| n.to_string_lossy().to_string()).unwrap_or_default();
    let data = match std::fs::read(artifact) {
        Ok(d) => d,
        Err(_) => return None,
    };
    if name.starts_with("timeout-") || name.starts_with("oom-") {
        st.note(format!("libFuzzer reported {} ({} bytes): treated as inconclusive, not as a violation", name, data.len()));
        return None;
    }
    std::env::set_var("VFUZZ_PROP", c.prop);
    let verdict = catch(|| vcore::decode::judge(c.target, &data));
    match verdict {
        Ok((case, engine, Err(f))) => Some(Found { engine: engine.to_string(), case, failure: f }),
        Ok((_, _, Ok(()))) => {
            st.note(format!("fuzz artifact {} did not reproduce in-process", name));
            None
        }
        Err(msg) => Some(Found {
            engine: "fuzz_bytes".into(),
            case: serde_json::json!({"target": c.target, "bytes": data}),
            failure: Failure::new("panic", 0, format!("re-judging the fuzz artifact panicked: {}", msg)),
        }),
    }
}
