//! C04, C05, C06, C18

use crate::runner::*;
use proptest::prelude::*;
use serde_json::{json, Value};
use vcore::common::*;
use vcore::midi::*;

fn note_from(pool: Vec<u8>) -> BoxedStrategy<u8> {
    prop_oneof![
        7 => proptest::sample::select(pool),
        3 => 0u8..=127,
    ]
    .boxed()
}

fn prio() -> BoxedStrategy<Prio> {
    prop_oneof![Just(Prio::Last), Just(Prio::High), Just(Prio::Low)].boxed()
}

fn note_ops(pool: Vec<u8>) -> BoxedStrategy<MidiOp> {
    let pool2 = pool.clone();
    prop_oneof![
        8 => (note_from(pool.clone()), 1u8..=127, any::<bool>()).prop_map(|(n, v, rs)| MidiOp::Chan { kind: 1, own: true, other: 0, d1: n, d2: v, rs }),
        5 => (note_from(pool.clone()), 0u8..=127, any::<bool>()).prop_map(|(n, v, rs)| MidiOp::Chan { kind: 0, own: true, other: 0, d1: n, d2: v, rs }),
        3 => (note_from(pool), any::<bool>()).prop_map(|(n, rs)| MidiOp::Chan { kind: 1, own: true, other: 0, d1: n, d2: 0, rs }),
        1 => (prop_oneof![9 => Just(0u8), 1 => 1u8..=127], any::<bool>()).prop_map(|(v, rs)| MidiOp::Chan { kind: 3, own: true, other: 0, d1: 123, d2: v, rs }),
        // note-on / note-off with system real-time bytes inside the message
        1 => (note_from(pool2), 0u8..=127, 0u8..2, any::<u8>(), 1u8..4).prop_map(|(n, v, k, rt, at)| MidiOp::ChanRt { kind: k, own: true, other: 0, d1: n, d2: v, rt, at }),
    ]
    .boxed()
}

fn cc_ops() -> BoxedStrategy<MidiOp> {
    let ctrl = prop_oneof![
        6 => proptest::sample::select(vec![1u8, 7, 71, 74, 5, 65, 64]),
        1 => proptest::sample::select(vec![121u8, 121, 120, 122, 124, 0, 2, 6, 8, 70, 72, 73, 75, 63, 66, 127]),
        2 => 0u8..=127,
    ];
    let val = prop_oneof![4 => 0u8..=127, 1 => proptest::sample::select(vec![0u8, 1, 63, 64, 65, 126, 127])];
    prop_oneof![
        5 => (ctrl, val, any::<bool>()).prop_map(|(c, v, rs)| MidiOp::Chan { kind: 3, own: true, other: 0, d1: c, d2: v, rs }),
        2 => (prop_oneof![2 => (0u8..=127, 0u8..=127), 1 => proptest::sample::select(vec![(0u8, 0u8), (127, 127), (0, 64), (1, 64), (127, 63), (0, 127), (127, 0)])], any::<bool>())
            .prop_map(|((l, m), rs)| MidiOp::Chan { kind: 6, own: true, other: 0, d1: l, d2: m, rs }),
    ]
    .boxed()
}

fn foreign_ops() -> BoxedStrategy<MidiOp> {
    prop_oneof![
        // any channel message on another channel
        3 => (0u8..7, 0u8..15, 0u8..=127, 0u8..=127, any::<bool>()).prop_map(|(k, o, a, b, rs)| MidiOp::Chan { kind: k, own: false, other: o, d1: a, d2: b, rs }),
        // unsupported types on the listened channel: poly pressure, program change, channel pressure
        2 => (proptest::sample::select(vec![2u8, 4, 5]), 0u8..=127, 0u8..=127, any::<bool>()).prop_map(|(k, a, b, rs)| MidiOp::Chan { kind: k, own: true, other: 0, d1: a, d2: b, rs }),
        2 => (0u8..8).prop_map(MidiOp::RealTime),
        // a message for another channel with system real-time bytes inside it
        1 => (0u8..7, 0u8..15, 0u8..=127, 0u8..=127, any::<u8>(), 1u8..4).prop_map(|(k, o, a, b, rt, at)| MidiOp::ChanRt { kind: k, own: false, other: o, d1: a, d2: b, rt, at }),
    ]
    .boxed()
}

fn junk_ops() -> BoxedStrategy<MidiOp> {
    prop_oneof![
        2 => proptest::collection::vec(0u8..=127, 0..12).prop_map(MidiOp::SysEx),
        // long system-exclusive payloads (lengths around the sizes a receiver might buffer)
        1 => (proptest::sample::select(vec![15usize, 16, 17, 31, 32, 33, 63, 64, 65, 127, 128, 129, 130, 255, 256, 257, 300]), any::<u8>())
            .prop_map(|(n, b)| MidiOp::SysEx((0..n).map(|i| (b as usize + i * 7) as u8 & 0x7F).collect())),
        2 => (0u8..6, proptest::collection::vec(0u8..=127, 0..4)).prop_map(|(s, d)| MidiOp::Common { status: s, data: d }),
        3 => (0u8..7, any::<bool>(), proptest::option::of(0u8..=127)).prop_map(|(k, own, d1)| MidiOp::Truncated { kind: k, own, d1 }),
        1 => proptest::collection::vec(any::<u8>(), 1..6).prop_map(MidiOp::Raw),
        1 => proptest::collection::vec(0u8..=127, 1..4).prop_map(MidiOp::Raw),
    ]
    .boxed()
}

fn mode_ops() -> BoxedStrategy<MidiOp> {
    prop_oneof![prio().prop_map(MidiOp::SetPriority), any::<bool>().prop_map(MidiOp::SetRetrigger)].boxed()
}

fn poll_ops() -> BoxedStrategy<MidiOp> {
    prop_oneof![Just(MidiOp::PollRising), Just(MidiOp::PollFalling), Just(MidiOp::PollBoth)].boxed()
}

fn pool() -> BoxedStrategy<Vec<u8>> {
    proptest::collection::vec(0u8..=127, 1..=6).boxed()
}

/// many distinct keys pressed at once (up to the 32 outstanding note-ons the statement allows), then released in a
/// generated order interleaved with the ordinary ops
fn chord_prefix() -> BoxedStrategy<Vec<MidiOp>> {
    prop_oneof![
        5 => Just(vec![]),
        // the same key struck again and again without a release (duplicates up to and beyond the 32-entry capacity)
        1 => (0u8..=127, 2usize..=40, any::<bool>()).prop_map(|(n, times, rs)| {
            (0..times).map(|i| MidiOp::Chan { kind: 1, own: true, other: 0, d1: n, d2: 1 + (i as u8 % 100), rs }).collect()
        }),
        1 => (prop_oneof![2 => 8usize..=32, 1 => 30usize..=32].prop_flat_map(|k| proptest::sample::subsequence((0u8..=127).collect::<Vec<u8>>(), k)).prop_shuffle(), any::<bool>()).prop_map(|(notes, rs)| {
            notes.into_iter().map(|n| MidiOp::Chan { kind: 1, own: true, other: 0, d1: n, d2: 1 + n % 100, rs }).collect()
        }),
    ]
    .boxed()
}

/// counts at which small wrapping counters roll over
fn boundary_count() -> BoxedStrategy<u16> {
    prop_oneof![
        3 => proptest::sample::select(vec![254u16, 255, 256, 257, 511, 512, 513, 127, 128, 129, 33, 32, 31]),
        1 => 1u16..600,
    ]
    .boxed()
}

/// motif: a routed controller is set, a long burst of one message follows (reset-all-controllers most of the time),
/// then the identical controller message is sent again (caches / "unchanged value" shortcuts must not go stale)
fn cc_burst_motif() -> BoxedStrategy<Vec<MidiOp>> {
    (
        proptest::sample::select(vec![1u8, 7, 71, 74, 5, 65, 64]),
        0u8..=127,
        prop_oneof![3 => Just((3u8, 121u8, 0u8)), 1 => Just((3u8, 123u8, 0u8)), 1 => (0u8..=127).prop_map(|n| (1u8, n, 100u8)), 1 => (0u8..=127, 0u8..=127).prop_map(|(c, v)| (3u8, c, v))],
        boundary_count(),
    )
        .prop_map(|(c, v, (kind, d1, d2), n)| {
            let burst = if kind == 1 && n % 2 == 0 { MidiOp::AltBurst { d1, n } } else { MidiOp::Burst { kind, d1, d2, n } };
            vec![
                MidiOp::Chan { kind: 3, own: true, other: 0, d1: c, d2: v, rs: false },
                burst,
                MidiOp::Chan { kind: 3, own: true, other: 0, d1: c, d2: v, rs: false },
            ]
        })
        .boxed()
}

/// weights: notes, cc, foreign, junk, modes, polls
fn midi_case(w: [u32; 6], max_ops: usize) -> BoxedStrategy<MidiCase> {
    midi_case_plain(w, max_ops)
        .prop_flat_map(|c| (Just(c), prop_oneof![6 => chord_prefix(), 1 => cc_burst_motif()], any::<proptest::sample::Index>()))
        .prop_map(|(mut c, chord, at)| {
            let is_chord = chord.iter().all(|o| matches!(o, MidiOp::Chan { kind: 1, .. }));
            if !chord.is_empty() && !is_chord {
                let pos = at.index(c.ops.len() + 1);
                let tail = c.ops.split_off(pos);
                c.ops.extend(chord);
                c.ops.extend(tail);
            } else if !chord.is_empty() {
                // pool notes of the ordinary ops now collide with the chord: re-target some ops at chord notes
                let notes: Vec<u8> = chord.iter().filter_map(|o| if let MidiOp::Chan { d1, .. } = o { Some(*d1) } else { None }).collect();
                for (i, op) in c.ops.iter_mut().enumerate() {
                    if let MidiOp::Chan { kind, own: true, d1, .. } = op {
                        if *kind <= 1 && i % 2 == 0 {
                            *d1 = notes[(*d1 as usize + i) % notes.len()];
                        }
                    }
                }
                let pos = at.index(c.ops.len() + 1);
                let tail = c.ops.split_off(pos);
                c.ops.extend(chord);
                c.ops.extend(tail);
            }
            c
        })
        .boxed()
}

/// echo motif: complete copies of own-channel messages sent on another channel right before (or after) the original,
/// as layered / multi-channel controllers do - foreign traffic that carries exactly the data of the listened channel
fn with_foreign_echo(c: MidiCase, pattern: u64, mode: u8) -> MidiCase {
    if mode == 0 {
        return c;
    }
    let mut ops = Vec::with_capacity(c.ops.len() * 2);
    for (i, op) in c.ops.into_iter().enumerate() {
        let echo = pattern >> (i % 64) & 1 == 1;
        if let (true, MidiOp::Chan { kind, own: true, d1, d2, .. }) = (echo, &op) {
            let copy = if mode >= 3 {
                MidiOp::ChanRt { kind: *kind, own: false, other: (pattern >> 8) as u8 % 15, d1: *d1, d2: *d2, rt: (pattern >> 16) as u8, at: 1 + (pattern >> 24) as u8 % 3 }
            } else {
                MidiOp::Chan { kind: *kind, own: false, other: (pattern >> 8) as u8 % 15, d1: *d1, d2: *d2, rs: false }
            };
            if mode % 2 == 1 {
                ops.push(copy);
                ops.push(op);
            } else {
                ops.push(op);
                ops.push(copy);
            }
        } else {
            ops.push(op);
        }
    }
    MidiCase { channel: c.channel, ops }
}

fn midi_case_plain(w: [u32; 6], max_ops: usize) -> BoxedStrategy<MidiCase> {
    midi_case_base(w, max_ops)
        .prop_flat_map(|c| (Just(c), any::<u64>(), prop_oneof![10 => Just(0u8), 2 => Just(1u8), 2 => Just(2u8), 1 => Just(3u8), 1 => Just(4u8)]))
        .prop_map(|(c, pattern, mode)| with_foreign_echo(c, pattern, mode))
        .boxed()
}

fn midi_case_base(w: [u32; 6], max_ops: usize) -> BoxedStrategy<MidiCase> {
    (prop_oneof![4 => 0u8..16, 1 => 16u8..=255], pool())
        .prop_flat_map(move |(ch, pool)| {
            let op = prop_oneof![
                w[0] => note_ops(pool),
                w[1] => cc_ops(),
                w[2] => foreign_ops(),
                w[3] => junk_ops(),
                w[4] => mode_ops(),
                w[5] => poll_ops(),
            ];
            (Just(ch), proptest::collection::vec(op, 1..max_ops))
        })
        .prop_map(|(channel, ops)| MidiCase { channel, ops })
        .boxed()
}

pub fn case_c04() -> BoxedStrategy<MidiCase> {
    midi_case([14, 1, 3, 0, 3, 0], 200)
}
pub fn case_c05() -> BoxedStrategy<MidiCase> {
    midi_case([12, 1, 2, 0, 2, 7], 120)
}
pub fn case_c18() -> BoxedStrategy<MidiCase> {
    midi_case([5, 12, 3, 0, 1, 1], 120)
}

fn byte_class() -> BoxedStrategy<u8> {
    prop_oneof![
        6 => 0u8..=127,
        3 => proptest::sample::select(vec![0x80u8, 0x90, 0xB0, 0xE0]),
        2 => 0x80u8..=0xEF,
        2 => 0xF8u8..=0xFF,
        1 => 0xF0u8..=0xF7,
    ]
    .boxed()
}

/// (a) unstructured bytes with weighted classes; status nibbles are steered to the listened channel half of the time
pub fn stream_case_raw() -> BoxedStrategy<StreamCase> {
    (prop_oneof![4 => 0u8..16, 1 => 16u8..=255], prio(), any::<bool>(), any::<u64>(), proptest::collection::vec((byte_class(), any::<bool>()), 0..400))
        .prop_map(|(channel, prio, retrigger, poll_mask, bytes)| {
            let ch = channel.min(15);
            let bytes = bytes
                .into_iter()
                .map(|(b, own)| if b >= 0x80 && b < 0xF0 && own { (b & 0xF0) | ch } else { b })
                .collect();
            StreamCase { channel, prio, retrigger, poll_mask: poll_mask & poll_mask.rotate_left(7), bytes }
        })
        .boxed()
}

/// (a') structured ops (incl. SysEx, system common, truncated messages, raw bytes) flattened to bytes
pub fn stream_case_structured() -> BoxedStrategy<StreamCase> {
    (midi_case([10, 4, 5, 5, 0, 0], 80), prio(), any::<bool>(), any::<u64>())
        .prop_map(|(c, prio, retrigger, poll_mask)| {
            let ch = c.channel.min(15);
            let mut running = None;
            let mut out = vec![];
            let mut tmp = vec![];
            for op in &c.ops {
                encode(op, ch, &mut running, &mut tmp);
                out.extend_from_slice(&tmp);
            }
            StreamCase { channel: c.channel, prio, retrigger, poll_mask: poll_mask & poll_mask.rotate_left(3), bytes: out }
        })
        .boxed()
}

pub fn meta_case() -> BoxedStrategy<MetaCase> {
    (
        midi_case([10, 5, 0, 0, 1, 2], 60),
        proptest::collection::vec((any::<u16>(), any::<u8>(), 0u8..8), 0..40),
        proptest::collection::vec(
            (any::<u16>(), (0u8..14, 0u8..15, 0u8..=127, 0u8..=127).prop_map(|(k, o, a, b)| MidiOp::Chan { kind: k, own: false, other: o, d1: a, d2: b, rs: false })),
            0..20,
        ),
    )
        .prop_map(|(c, realtime, foreign)| MetaCase { channel: c.channel, ops: c.ops, realtime, foreign })
        .boxed()
}

pub fn replay(property: &str, engine: &str, case: &Value) -> Result<(), Failure> {
    let mut st = Stats::default();
    let dec = |e: serde_json::Error| Failure::new("replay_decode", 0, e.to_string());
    match engine {
        "midi_model" => {
            let c: MidiCase = serde_json::from_value(case.clone()).map_err(dec)?;
            let mask = match property {
                "C04" => C04,
                "C05" => C05,
                "C18" => C18,
                _ => 7,
            };
            run_case(&c, mask, &mut st).map(|_| ())
        }
        "midi_stream" => {
            let c: StreamCase = serde_json::from_value(case.clone()).map_err(dec)?;
            run_stream(&c, &mut st).map(|_| ())
        }
        "midi_meta" => {
            let c: MetaCase = serde_json::from_value(case.clone()).map_err(dec)?;
            run_meta(&c, &mut st).map(|_| ())
        }
        "midi_c18_cell" => {
            let g = |k: &str| case[k].as_u64().unwrap_or(0) as u8;
            c18_cell(g("listen"), g("msg_ch"), g("cc"), g("val"), g("prior"))
        }
        "midi_c18_bend" => {
            let l = case["listen"].as_u64().unwrap_or(0) as u8;
            if case.get("reset_state").is_some() {
                c18_reset_states(l).map(|_| ())
            } else {
                c18_bend(l).map(|_| ())?;
                c18_scaling(l)
            }
        }
        _ => Err(Failure::new("replay_unknown_engine", 0, engine.to_string())),
    }
}

const MODEL_NOTE: &str = "reference = independent MIDI 1.0 byte decoder + receiver model (ordered list of outstanding note-ons, priority applied at every note message, latches set/cleared exactly as stated); CC 123 / CC 121 with a non-zero value byte: either reading accepted, must stay consistent within a case; cases reaching > 32 outstanding note-ons are truncated and counted";

pub fn c04(quick: bool, seed: u64) -> Outcome {
    let mut o = Outcome::new(
        "proptest histories of 1..200 ops: note-on (v>=1), note-off, note-on velocity 0, All-Notes-Off, priority / retrigger switches, foreign-channel and unsupported messages, real-time bytes between messages and inside them (after the status byte, between the data bytes - own note messages and foreign messages alike); notes 70% from a per-case pool of 1-6 numbers (collisions, duplicates, stray releases), 30% uniform; all 16 channels (and channel arguments > 15); running status used at random where legal. After every complete message gate(), note_num(), velocity() are compared with the reference model. non-trivial = history with a release out of press order, or a duplicate note-on, or a note-off for a note not held, or All-Notes-Off with >= 2 held, AND a priority other than Last in force at some point; distinct by hash",
    );
    o.assumptions.push(MODEL_NOTE.into());
    let cases = if quick { 200_000 } else { 2_000_000 };
    let part = pt_run("midi_model", case_c04, cases, seed, 4, 8000, |c, st| run_case(c, C04, st).map(|i| i.nontrivial));
    o.absorb(part);
    o
}

pub fn c05(quick: bool, seed: u64) -> Outcome {
    let mut o = Outcome::new(
        "proptest histories of 1..120 ops as for C04 plus rising/falling/both edge polls at arbitrary positions; every poll result is compared with the model's two latches (rising: set by a note-on that finds the gate low or arrives in retrigger mode, cleared when the gate drops or when read; falling: set when the gate goes high->low by any cause, cleared by a note-on or when read) and the implications rising=>gate, falling=>!gate are checked. non-trivial = history with >= 1 gate fall, >= 1 poll after >= 2 messages since the previous poll, and one of {All-Notes-Off while the gate is high, stray note-off while the gate is low, note-on in retrigger mode while the gate is high}; distinct by hash",
    );
    o.assumptions.push(MODEL_NOTE.into());
    let cases = if quick { 300_000 } else { 2_000_000 };
    let part = pt_run("midi_model", case_c05, cases, seed, 5, 8000, |c, st| run_case(c, C05, st).map(|i| i.nontrivial));
    o.absorb(part);
    o
}

pub fn c06(quick: bool, seed: u64) -> Outcome {
    let mut o = Outcome::new(
        "three generators: (a) 0..400 unstructured bytes from weighted classes {data, status on the listened channel, other status, real-time, system common/SysEx}; (a') structured streams (notes, controllers, bend, foreign-channel and unsupported messages, real-time, SysEx, system common, truncated messages, raw bytes) flattened to bytes with running status; both are checked after EVERY byte: all eleven pure getters (and the edge getters at generated poll positions) of the receiver fed the raw stream must equal those of a second receiver fed only the canonical (explicit status) supported listened-channel messages that an independent MIDI 1.0 decoder finds in the stream; parse() must not panic (debug assertions on). (b) metamorphic, decoder-free: a well-formed stream vs the same stream with real-time bytes inserted at arbitrary byte offsets and complete foreign-channel / unsupported messages inserted before explicit-status messages: identical getters after every original message. non-trivial = stream in which >= 1 supported listened-channel message completes and which contains running status, a real-time byte inside a message, an aborted partial message, SysEx or a system-common byte (for (b): >= 1 own message and an insertion inside a message or a foreign message); distinct by hash",
    );
    o.assumptions.push("framing reference = MIDI 1.0: real-time bytes transparent, a status byte aborts a partial message, running status for 0x80-0xEF, any 0xF0-0xF7 cancels running status, data bytes without status are dropped; streams that would hold > 32 outstanding note-ons are truncated and counted".into());
    let (n1, n2, n3) = if quick { (150_000, 150_000, 100_000) } else { (1_500_000, 1_500_000, 1_000_000) };
    let part = pt_run("midi_stream", stream_case_raw, n1, seed, 6, 8000, |c, st| run_stream(c, st).map(|i| i.nontrivial));
    o.absorb(part);
    let part = pt_run("midi_stream", stream_case_structured, n2, seed, 61, 8000, |c, st| run_stream(c, st).map(|i| i.nontrivial));
    o.absorb(part);
    let part = pt_run("midi_meta", meta_case, n3, seed, 62, 8000, |c, st| run_meta(c, st).map(|i| i.nontrivial));
    o.absorb(part);
    o
}

pub fn c18(quick: bool, seed: u64) -> Outcome {
    let mut o = Outcome::new(
        "complete generator: 16 listened channels x 128 controller numbers x 128 values on the listened channel and on a foreign channel, each from a non-default prior state (every routed controller set, pitch bend moved, a note held; prior values vary with the cell; quick tier: 8 seed-chosen listened channels), 16 x 16384 pitch-bend values LSB first (quick: 8 channels) interleaved with foreign-channel bends, value-axis scaling of the five continuous controllers, controller reset (CC 121) from all 16384 boundary-valued states (each continuous controller in {0,1,64,127}, bend in {0,8192,16383,5000}, both switches); oracle = controller map of the statement (value/127 bit-exact, switches value>=64, 121 restores the power-on getters, everything else changes nothing; every number except 123 leaves gate/note/velocity/edges alone). Plus proptest histories interleaving controllers, bend, notes and foreign traffic against the receiver model. non-trivial = every cell of the complete generator on the listened channel (distinct by construction) + distinct histories containing both controller/bend and note traffic",
    );
    o.assumptions.push(MODEL_NOTE.into());
    let mut mix = Mix(seed ^ 0xC18);
    let mut chans: Vec<u8> = (0..16).collect();
    if quick {
        let mut pick = vec![];
        while pick.len() < 8 {
            let c = mix.below(16) as u8;
            if !pick.contains(&c) {
                pick.push(c);
            }
        }
        chans = pick;
    }
    let chans2 = chans.clone();
    let total = chans.len() as u64 * 128;
    let part = par_chunks("midi_c18_cell", total, total as usize, |lo, hi, st| {
        for i in lo..hi {
            let listen = chans2[(i / 128) as usize];
            let cc = (i % 128) as u8;
            for val in 0..128u8 {
                let prior = (cc as u32 * 31 + val as u32 * 7 + listen as u32) as u8;
                c18_cell(listen, listen, cc, val, prior).map_err(|f| (f.data.clone(), f))?;
                let other = (listen + 1 + (val % 15)) % 16;
                c18_cell(listen, other, cc, val, prior).map_err(|f| (f.data.clone(), f))?;
            }
            st.count("cc_cells_listened_channel", 128);
            st.count("cc_cells_foreign_channel", 128);
            st.count("sweep_evaluations", 256);
        }
        Ok(())
    });
    o.absorb(part);
    let part = par_chunks("midi_c18_bend", chans.len() as u64, chans.len(), |lo, hi, st| {
        for i in lo..hi {
            let listen = chans[i as usize];
            let n = c18_bend(listen).map_err(|f| (f.data.clone(), f))?;
            c18_scaling(listen).map_err(|f| (f.data.clone(), f))?;
            let k = c18_reset_states(listen).map_err(|f| (f.data.clone(), f))?;
            st.count("reset_states", k);
            st.count("sweep_evaluations", k);
            st.count("pitch_bend_values", n);
            st.count("sweep_evaluations", n + 5 * 128);
        }
        Ok(())
    });
    o.absorb(part);
    if !quick && o.stats.get("cc_cells_listened_channel") == 16 * 128 * 128 {
        o.exhaustive = true;
        o.exhaustive_note = "16 channels x 128 controllers x 128 values (listened + one foreign channel each) and 16 x 16384 pitch-bend values; prior states and interleavings with note traffic are sampled".into();
    }
    let cases = if quick { 150_000 } else { 1_000_000 };
    let part = pt_run("midi_model", case_c18, cases, seed, 18, 8000, |c, st| run_case(c, C18, st).map(|i| i.nontrivial));
    o.absorb(part);
    o.stats.samples.push(json!({"cell": {"listen": 3, "msg_ch": 3, "cc": 74, "val": 64, "prior": 121}}));
    o
}

pub fn c18_nontrivial(o: &Outcome) -> u64 {
    o.stats.get("cc_cells_listened_channel") + o.stats.get("pitch_bend_values") + o.stats.nontrivial.len() as u64
}
