//! C07, C08, C09, C19

use crate::runner::*;
use proptest::prelude::*;
use serde_json::{json, Value};
use vcore::common::*;
use vcore::quant::*;

fn note_list() -> BoxedStrategy<Vec<u8>> {
    proptest::collection::vec(prop_oneof![8 => 0u8..12, 1 => 12u8..=255], 0..=12).boxed()
}

pub fn quant_input() -> BoxedStrategy<f32> {
    prop_oneof![
        5 => 0.0f32..=10.0f32,
        // around semitone and half-semitone grid points, all octaves
        4 => (0u32..=240, prop_oneof![Just(0.0f64), Just(1e-6), Just(-1e-6), Just(1e-5), Just(-1e-5), Just(1e-4), Just(-1e-4), -0.01f64..0.01])
            .prop_map(|(k, d)| (k as f64 / 24.0 + d) as f32),
        // around the hysteresis edges of a note
        2 => (0u32..=120, prop_oneof![Just(-HYST), Just(SEMI + HYST)], -3e-5f64..3e-5).prop_map(|(k, e, d)| (k as f64 / 12.0 + e + d) as f32),
        1 => -1.0f32..11.0f32,
        // around the ends of the range, where clamping and the window interact
        2 => 9.9f32..10.6f32,
        1 => -0.2f32..0.1f32,
        1 => prop_oneof![Just(f32::NAN), Just(f32::INFINITY), Just(f32::NEG_INFINITY), Just(-0.0f32), Just(1e30f32), Just(-1e30f32), Just(10.0f32), Just(0.0f32), Just(f32::MAX), Just(1e-45f32)],
    ]
    .boxed()
}

fn quant_op() -> BoxedStrategy<QuantOp> {
    prop_oneof![
        2 => note_list().prop_map(QuantOp::Allow),
        3 => note_list().prop_map(QuantOp::Forbid),
        2 => proptest::collection::vec(0u8..12, 0..4).prop_map(QuantOp::ForbidLast),
        6 => quant_input().prop_map(QuantOp::Convert),
        3 => Just(QuantOp::ConvertSame),
        3 => (-0.02f32..0.02f32).prop_map(QuantOp::ConvertNudge),
        2 => (0.0f32..10.0, prop_oneof![1e-4f32..0.03, -0.03f32..-1e-4], prop_oneof![12 => 2u8..40, 1 => 250u8..=255]).prop_map(|(start, step, n)| QuantOp::Ramp { start, step, n }),
        2 => (0u8..=120, 0.0f32..1.3, proptest::collection::vec(-1.0f32..=1.0, 2..30)).prop_map(|(k, amp, offs)| QuantOp::Noise { k, amp, offs }),
    ]
    .boxed()
}

/// counts at which small wrapping counters roll over
fn boundary_count() -> BoxedStrategy<u16> {
    prop_oneof![
        3 => proptest::sample::select(vec![254u16, 255, 256, 257, 510, 511, 512, 513, 127, 128, 129, 63, 64, 65]),
        1 => 1u16..600,
    ]
    .boxed()
}

/// motif: convert, a long burst of scale edits with no conversion in between, forbid the class of the note just
/// returned, convert the same input again (caches keyed on an edit counter must not go stale)
fn edit_burst_motif() -> BoxedStrategy<Vec<QuantOp>> {
    (
        proptest::option::weighted(0.4, prop_oneof![Just(vec![0u8]), Just(vec![0u8, 11]), Just(vec![0u8, 1]), proptest::collection::vec(0u8..12, 1..4)]),
        prop_oneof![2 => quant_input(), 1 => 9.95f32..10.3, 1 => -0.1f32..0.05],
        prop_oneof![2 => 0u8..12, 1 => Just(0u8)],
        prop_oneof![2 => boundary_count(), 1 => 1u16..4],
        proptest::collection::vec(0u8..12, 0..3),
        prop_oneof![Just(QuantOp::ConvertSame), (-0.005f32..0.005).prop_map(QuantOp::ConvertNudge), (-0.05f32..0.05).prop_map(QuantOp::ConvertNudge)],
    )
        .prop_map(|(pre, v, note, n, extra, again)| {
            let mut ops = vec![];
            if let Some(list) = pre {
                ops.push(QuantOp::Forbid(list));
            }
            ops.extend([QuantOp::Convert(v), QuantOp::EditBurst { note, n }, QuantOp::ForbidLast(extra), again]);
            ops
        })
        .boxed()
}

/// motif: one forbid call that would empty the scale with the current note's class last (so that class survives), a few
/// neighbours re-allowed, then an input in the hysteresis margin of the kept note
fn forbid_all_motif() -> BoxedStrategy<Vec<QuantOp>> {
    (quant_input(), 0u8..12, proptest::collection::vec(0u8..12, 0..4), prop_oneof![(-0.012f32..0.012).prop_map(QuantOp::ConvertNudge), (0.07f32..0.095).prop_map(QuantOp::ConvertNudge), (-0.095f32..-0.07).prop_map(QuantOp::ConvertNudge), Just(QuantOp::ConvertSame)])
        .prop_map(|(v, rot, allow, again)| {
            let mut ops = vec![QuantOp::Convert(v), QuantOp::ForbidAllLast(rot)];
            if !allow.is_empty() {
                ops.push(QuantOp::Allow(allow));
            }
            ops.push(again);
            ops
        })
        .boxed()
}

pub fn quant_case() -> BoxedStrategy<QuantCase> {
    (proptest::collection::vec(quant_op(), 1..80), prop_oneof![4 => Just(vec![]), 1 => edit_burst_motif(), 1 => forbid_all_motif()], any::<proptest::sample::Index>())
        .prop_map(|(mut ops, motif, at)| {
            if !motif.is_empty() {
                let pos = at.index(ops.len() + 1);
                let tail = ops.split_off(pos);
                ops.extend(motif);
                ops.extend(tail);
            }
            QuantCase { ops }
        })
        .boxed()
}

pub fn replay(property: &str, engine: &str, case: &Value) -> Result<(), Failure> {
    match engine {
        "quant_history" => {
            let c: QuantCase = serde_json::from_value(case.clone()).map_err(|e| Failure::new("replay_decode", 0, e.to_string()))?;
            let mask = match property {
                "C07" => C07,
                "C09" => C09,
                "C19" => C19,
                _ => 7,
            };
            let mut st = Stats::default();
            run_case(&c, mask, &mut st).map(|_| ())
        }
        "quant_fresh" => {
            let mask = case["scale_mask"].as_u64().unwrap_or(0xfff) as u16;
            let v = f32::from_bits(case["v_bits"].as_u64().unwrap_or(0) as u32);
            let mut st = Stats::default();
            let c19 = property == "C19";
            let variant = case.get("build_variant").and_then(|x| x.as_u64()).unwrap_or(0) as u8;
            let r = check_fresh_built(mask, variant, v, !c19, c19, &mut st)?;
            if let Some(pb) = case.get("prev_v_bits").and_then(|x| x.as_u64()) {
                let pv = f32::from_bits(pb as u32);
                let pr = check_fresh(mask, pv, !c19, c19, &mut st)?;
                if pv <= v && r < pr {
                    return Err(Failure::new("C08.monotone", 0, format!("convert({}) -> {} but convert({}) -> {}", pv, pr, v, r)));
                }
            }
            Ok(())
        }
        _ => Err(Failure::new("replay_unknown_engine", 0, engine.to_string())),
    }
}

fn history(mask: u32, stream: u64, quick: bool, seed: u64, rule: &str) -> Outcome {
    let mut o = Outcome::new(rule);
    o.assumptions.push("tie tolerance 10 uV at every decision boundary (the quantizer works on an integer microvolt grid)".into());
    let cases = if quick { 250_000 } else { 1_500_000 };
    let part = pt_run("quant_history", quant_case, cases, seed, stream, 6000, |c, st| run_case(c, mask, st).map(|i| i.nontrivial));
    o.absorb(part);
    o
}

const HIST_RULE: &str = "proptest histories of 1..80 ops from {allow(list), forbid(list), forbid-the-class-of-the-last-note(+extra), convert(v), convert-same, convert-nudged(|d|<=0.02 V), ramp(start,step,n), noise(boundary k/12, amplitude 0..1.3 H, 2..30 samples)}; note lists of 0..12 numbers in 0..=255; v from {U[0,10], half-semitone grid +- {0,1e-6,1e-5,1e-4,<0.01}, hysteresis edges +- 3e-5, U[-1,11], NaN/inf/-0/1e30}; model = 12-bit scale + last returned note; oracle after every op; ";

pub fn c07(quick: bool, seed: u64) -> Outcome {
    history(C07, 7, quick, seed, &format!("{}non-trivial = history with a conversion that directly follows an edit forbidding the pitch class of the previously returned note, input unchanged or nudged by <= 0.02 V, previous note in octave >= 1; distinct by hash", HIST_RULE))
}

pub fn c09(quick: bool, seed: u64) -> Outcome {
    history(C09, 9, quick, seed, &format!("{}expected note inside the window = previous note; outside = field-by-field equal to a fresh quantizer with the same scale (differential against the history-free instance). non-trivial = history in which the window decided >= 1 conversion in octave >= 1 and >= 1 conversion was outside the window; distinct by hash", HIST_RULE))
}

fn scales_sweep(o: &mut Outcome, c19: bool, n_random: usize, seed: u64) {
    let part = par_chunks("quant_fresh", 4095, 273, |lo, hi, st| {
        let mut inputs = vec![];
        for m in lo..hi {
            let mask = (m + 1) as u16;
            let mut mix = Mix(seed ^ (mask as u64) << 20 ^ 0xC08);
            c08_inputs(&mut mix, n_random, &mut inputs);
            check_scale(mask, &mut inputs, c19, st).map_err(|f| (f.data.clone(), f))?;
            st.count("scales", 1);
            st.count("sweep_evaluations", inputs.len() as u64);
        }
        Ok(())
    });
    o.absorb(part);
}

pub fn c08(quick: bool, seed: u64) -> Outcome {
    let mut o = Outcome::new(
        "complete generator over all 4095 non-empty scales x per-scale input list (every half-semitone grid point k/24, k=0..240, with offsets {0,+-1e-6,+-2e-5}: all decision boundaries between any two notes; out-of-range and non-finite values; N seed-derived uniform values, N = 2000 quick / 20000 thorough); a fresh quantizer per conversion, its scale configured in one of six ways in turn (one forbid of the complement; forbid-all with the lowest/highest class last - the would-empty rule - then allow, with that class allowed or forbidden beforehand; class by class); acceptance predicate (allowed, in the one-semitone-below window or nearest, ties within 10 uV) and monotonicity along the sorted inputs. Plus the complete 10,000,001-value microvolt sweep for the chromatic scale, {E,B} and 2 seed-chosen scales (quick) / the chromatic scale, {E,B}, the 12 singletons and 114 seed-chosen scales (thorough). non-trivial = conversion of a non-chromatic scale in octave >= 1 whose note is not in the input's own octave, or an input within 1/1000 semitone of a half-semitone grid point (counted; distinct by construction: each (scale,input) pair occurs once)",
    );
    o.assumptions.push("tie tolerance 10 uV at every decision boundary (the quantizer works on an integer microvolt grid)".into());
    scales_sweep(&mut o, false, if quick { 2_000 } else { 20_000 }, seed);
    if o.stats.get("scales") == 4095 {
        o.exhaustive = !quick;
        if !quick {
            o.exhaustive_note = "all 4095 scales (inputs sampled per scale); complete microvolt sweep of [0,10] V for 128 scales".into();
        }
    }
    if !o.failed() {
        // complete 10,000,001-value microvolt sweeps: chromatic, {E,B}, the 12 singletons and seed-chosen scales
        // (quick: chromatic + {E,B} + 2 seed-chosen; thorough: 128 scales)
        let mut masks: Vec<u16> = vec![0xfff, (1 << 4) | (1 << 11)];
        if !quick {
            for n in 0..12 {
                masks.push(1 << n);
            }
        }
        let want = if quick { 4 } else { 128 };
        let mut mix = Mix(seed ^ 0x5CA1E5);
        while masks.len() < want {
            let m = 1 + mix.below(4095) as u16;
            if !masks.contains(&m) {
                masks.push(m);
            }
        }
        let per = 100u64; // chunks per scale
        let total = masks.len() as u64 * per;
        let part = par_chunks("quant_fresh", total, total as usize, |lo, hi, st| {
            for c in lo..hi {
                let mask = masks[(c / per) as usize];
                let i = c % per;
                let a = 10_000_001u64 * i / per;
                let b = 10_000_001u64 * (i + 1) / per;
                // overlap by one value so that monotonicity is also checked across chunk borders
                microvolt_sweep(mask, a.saturating_sub(1), b, st).map_err(|f| (f.data.clone(), f))?;
                st.count("sweep_evaluations", b - a);
            }
            Ok(())
        });
        o.absorb(part);
        o.stats.count("scales_with_complete_microvolt_sweep", masks.len() as u64);
    }
    o.stats.samples.push(json!({"scale": [4, 11], "inputs": [1.1, 1.4999998, 1.5, 1.5000002], "note": "one of ~1400 inputs per scale in the quick tier"}));
    o.stats.samples.push(json!({"scale": [0], "input": 1.50002}));
    o
}

pub fn c08_nontrivial(o: &Outcome) -> u64 {
    o.stats.get("nontrivial_conversions") + o.stats.get("microvolt_sweep_conversions")
}

pub fn c19(quick: bool, seed: u64) -> Outcome {
    let mut o = history(C19, 19, quick, seed, &format!("{}plus fresh quantizers over all 4095 scales x the C08 input list. Oracle: stairstep == note/12 (f32, bit-exact); stairstep+fraction within 2 ulps of the input (or of its clamped value when outside [0,10]); chromatic/no history: fraction in [0,1) semitone (10 uV grid tolerance); window-kept note: fraction in [-0.1,1.1] semitones. non-trivial = history containing a conversion on the hysteresis path, or an input outside [0,10], or a non-chromatic scale; distinct by hash", HIST_RULE));
    scales_sweep(&mut o, true, if quick { 100 } else { 5_000 }, seed);
    o
}
