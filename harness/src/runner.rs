//! Generic machinery: parallel proptest runner with fixed seeds, plain parallel-for for the complete generators,
//! the outcome record every property check returns.

use proptest::strategy::Strategy;
use proptest::test_runner::{Config, RngSeed, TestCaseError, TestError, TestRunner};
use serde::Serialize;
use serde_json::Value;
use std::cell::RefCell;
use std::fmt::Debug;
use std::sync::atomic::{AtomicBool, Ordering};
use vcore::common::*;

/// One found violation: the (shrunk) case and what the oracle said.
#[derive(Debug, Clone)]
pub struct Found {
    pub engine: String,
    pub case: Value,
    pub failure: Failure,
}

/// What a property check returns.
pub struct Outcome {
    pub stats: Stats,
    pub found: Vec<Found>,
    pub exhaustive: bool,
    pub exhaustive_note: String,
    pub rule: String,
    pub assumptions: Vec<String>,
}

impl Outcome {
    pub fn new(rule: &str) -> Self {
        Outcome {
            stats: Stats::default(),
            found: vec![],
            exhaustive: false,
            exhaustive_note: String::new(),
            rule: rule.to_string(),
            assumptions: vec![],
        }
    }
    pub fn absorb(&mut self, part: (Stats, Option<Found>)) {
        self.stats.merge(part.0);
        if let Some(f) = part.1 {
            self.found.push(f);
        }
    }
    pub fn failed(&self) -> bool {
        !self.found.is_empty()
    }
}

pub fn jobs() -> usize {
    std::env::var("VERIF_JOBS")
        .ok()
        .and_then(|s| s.parse().ok())
        .unwrap_or_else(|| std::thread::available_parallelism().map(|n| n.get()).unwrap_or(4).min(16))
        .max(1)
}

pub fn compact_sample<T: Serialize>(t: &T) -> Value {
    let v = serde_json::to_value(t).unwrap_or(Value::Null);
    let s = v.to_string();
    if s.len() > 1800 {
        let mut cut = 1800;
        while !s.is_char_boundary(cut) {
            cut -= 1;
        }
        Value::String(format!("{} ...[truncated, {} bytes in total]", &s[..cut], s.len()))
    } else {
        v
    }
}

/// Run `cases_total` generated cases of `strategy` split over the worker threads. Every worker owns a proptest
/// TestRunner seeded with a pure function of (seed, stream, worker). `f` returns Ok(nontrivial?) or the failure.
/// On failure proptest shrinks the case; the shrunk case and its failure are returned.
pub fn pt_run<S, F>(
    engine: &str,
    strategy: impl Fn() -> S + Sync,
    cases_total: u32,
    seed: u64,
    stream: u64,
    max_shrink_iters: u32,
    f: F,
) -> (Stats, Option<Found>)
where
    S: Strategy,
    S::Value: Debug + Clone + Serialize,
    F: Fn(&S::Value, &mut Stats) -> Result<bool, Failure> + Sync,
{
    let f = |c: &S::Value, st: &mut Stats| -> Result<bool, Failure> {
        match catch(|| f(c, st)) {
            Ok(r) => r,
            Err(msg) => Err(Failure::new("panic", 0, format!("evaluating the case panicked (overflow checks and debug assertions are on): {}", msg))),
        }
    };
    let workers = jobs();
    let per = (cases_total as usize + workers - 1) / workers;
    let stop = AtomicBool::new(false);
    let results: Vec<(Stats, Option<(usize, Found)>)> = std::thread::scope(|sc| {
        let mut hs = vec![];
        for w in 0..workers {
            let strategy = &strategy;
            let f = &f;
            let stop = &stop;
            hs.push(sc.spawn(move || {
                let wseed = splitmix(seed ^ splitmix(stream.wrapping_mul(0x1000) + w as u64 + 1));
                let mut cfg = Config::default();
                cfg.cases = per as u32;
                cfg.failure_persistence = None;
                cfg.rng_seed = RngSeed::Fixed(wseed);
                cfg.max_shrink_iters = max_shrink_iters;
                cfg.max_shrink_time = 0;
                cfg.verbose = 0;
                cfg.max_global_rejects = 1_000_000;
                cfg.source_file = None;
                let mut runner = TestRunner::new(cfg);
                let stats = RefCell::new(Stats::default());
                let failed = std::cell::Cell::new(false);
                let strat = strategy();
                let res = catch(|| runner.run(&strat, |case| {
                    if failed.get() {
                        // shrinking: evaluate without touching the statistics
                        let mut scratch = Stats::default();
                        return match f(&case, &mut scratch) {
                            Ok(_) => Ok(()),
                            Err(e) => Err(TestCaseError::fail(e.rule)),
                        };
                    }
                    if stop.load(Ordering::Relaxed) {
                        return Ok(());
                    }
                    let mut st = stats.borrow_mut();
                    st.cases += 1;
                    if w == 0 && st.samples.len() < 3 {
                        let v = compact_sample(&case);
                        st.samples.push(v);
                    }
                    match f(&case, &mut st) {
                        Ok(nt) => {
                            if nt {
                                let h = stable_hash(&case);
                                st.nontrivial_hash(h);
                            }
                            Ok(())
                        }
                        Err(e) => {
                            failed.set(true);
                            stop.store(true, Ordering::Relaxed);
                            Err(TestCaseError::fail(e.rule))
                        }
                    }
                }));
                let res = match res {
                    Ok(r) => r,
                    Err(msg) => {
                        // a panic inside the generator library (not in the code under test, whose panics are caught
                        // per case): this worker stops early, the others carry on; recorded, never a violation
                        stats.borrow_mut().note(format!("worker {} stopped early: the case generator panicked: {}", w, msg));
                        Ok(())
                    }
                };
                let found = match res {
                    Ok(()) => None,
                    Err(TestError::Fail(_, minimal)) => {
                        let mut scratch = Stats::default();
                        let failure = match f(&minimal, &mut scratch) {
                            Err(e) => e,
                            Ok(_) => Failure::new("unstable", 0, "shrunk case no longer fails (non-deterministic oracle?)".into()),
                        };
                        Some((
                            w,
                            Found {
                                engine: engine.to_string(),
                                case: serde_json::to_value(&minimal).unwrap_or(Value::Null),
                                failure,
                            },
                        ))
                    }
                    Err(TestError::Abort(r)) => Some((
                        w,
                        Found {
                            engine: engine.to_string(),
                            case: Value::Null,
                            failure: Failure::new("generator_abort", 0, format!("proptest aborted: {}", r)),
                        },
                    )),
                };
                (stats.into_inner(), found)
            }));
        }
        hs.into_iter().map(|h| h.join().expect("worker panicked")).collect()
    });
    let mut total = Stats::default();
    let mut best: Option<(usize, Found)> = None;
    for (st, fo) in results {
        total.merge(st);
        if let Some((w, f)) = fo {
            if best.as_ref().map(|(bw, _)| w < *bw).unwrap_or(true) {
                best = Some((w, f));
            }
        }
    }
    (total, best.map(|b| b.1))
}

/// Split the index range [0, n) into `chunks` contiguous pieces and run `f(lo, hi, &mut Stats)` on the worker
/// threads. The first failure (lowest chunk) wins.
pub fn par_chunks<F>(engine: &str, n: u64, chunks: usize, f: F) -> (Stats, Option<Found>)
where
    F: Fn(u64, u64, &mut Stats) -> Result<(), (Value, Failure)> + Sync,
{
    let workers = jobs();
    let chunks = chunks.max(1);
    let next = std::sync::atomic::AtomicUsize::new(0);
    let stop = AtomicBool::new(false);
    let results: Vec<(Stats, Option<(usize, Found)>)> = std::thread::scope(|sc| {
        let mut hs = vec![];
        for _ in 0..workers {
            let f = &f;
            let next = &next;
            let stop = &stop;
            hs.push(sc.spawn(move || {
                let mut st = Stats::default();
                let mut found = None;
                loop {
                    let c = next.fetch_add(1, Ordering::Relaxed);
                    if c >= chunks || stop.load(Ordering::Relaxed) {
                        break;
                    }
                    let lo = n * c as u64 / chunks as u64;
                    let hi = n * (c as u64 + 1) / chunks as u64;
                    let verdict = match catch(|| f(lo, hi, &mut st)) {
                        Ok(v) => v,
                        Err(msg) => Err((
                            serde_json::json!({"chunk": [lo, hi]}),
                            Failure::new("panic", 0, format!("evaluating the chunk [{}, {}) panicked (overflow checks and debug assertions are on): {}", lo, hi, msg)),
                        )),
                    };
                    if let Err((case, failure)) = verdict {
                        stop.store(true, Ordering::Relaxed);
                        found = Some((
                            c,
                            Found {
                                engine: engine.to_string(),
                                case,
                                failure,
                            },
                        ));
                        break;
                    }
                }
                (st, found)
            }));
        }
        hs.into_iter().map(|h| h.join().expect("worker panicked")).collect()
    });
    let mut total = Stats::default();
    let mut best: Option<(usize, Found)> = None;
    for (st, fo) in results {
        total.merge(st);
        if let Some((c, f)) = fo {
            if best.as_ref().map(|(bc, _)| c < *bc).unwrap_or(true) {
                best = Some((c, f));
            }
        }
    }
    (total, best.map(|b| b.1))
}
