//! C10, C11, C12

use crate::runner::*;
use crate::strat::*;
use proptest::prelude::*;
use serde_json::json;
use vcore::common::*;
use vcore::lfo::*;

fn lfo_freq(fs: f32) -> BoxedStrategy<f32> {
    let fsd = fs as f64;
    prop_oneof![
        1 => Just(0.0f32),
        1 => Just(fs),
        4 => (0.0f64..=1.0).prop_map(move |u| (u * fsd) as f32),
        3 => log_uniform(fsd / 67_108_864.0, fsd).prop_map(move |f| f.min(fs)),
        // within an ulp or so of k*fs/2^24 (increment boundaries)
        3 => (0u32..=16_777_216u32, -2i32..=2).prop_map(move |(k, d)| {
            let f = (k as f64 * fsd / TWO24F) as f32;
            let g = f32::from_bits((f.to_bits() as i64 + d as i64).max(0) as u32);
            if g.is_finite() && g >= 0.0 && g <= fs { g } else { f.min(fs) }
        }),
        // tiny increments 0..4 counts
        2 => (0.0f64..4.0).prop_map(move |c| (c * fsd / TWO24F) as f32),
        // increments near k * 2^j counts
        2 => (0u32..24, 1u32..16, prop_oneof![1 => Just(0.0f64), 3 => -1100.0f64..1100.0]).prop_map(move |(j, k, d)| {
            let inc = (((k as u64) << j) as f64 + d).clamp(0.0, TWO24F);
            ((inc * fsd / TWO24F) as f32).min(fs)
        }),
        // close to the sample rate
        1 => (0u32..4).prop_map(move |d| f32::from_bits(fs.to_bits() - d)),
        // whole numbers of samples per cycle
        1 => proptest::sample::select(vec![1.0f32, 2.0, 3.0, 4.0, 8.0, 16.0, 1024.0, 65536.0]).prop_map(move |k| fs / k),
    ]
    .boxed()
}

fn lfo_phase() -> BoxedStrategy<f32> {
    prop_oneof![
        4 => 0.0f32..1.0f32,
        2 => 0.0f32..1000.0f32,
        2 => -1000.0f32..0.0f32,
        1 => prop_oneof![Just(1e10f32), Just(1e30f32), Just(-1e30f32), Just(f32::MAX), Just(f32::MIN), Just(16_777_216.0f32), Just(8_388_609.0f32)],
        1 => prop_oneof![Just(1e-45f32), Just(-1e-45f32), Just(0.0f32), Just(-0.0f32), Just(f32::MIN_POSITIVE), Just(1.0f32), Just(0.99999994f32)],
        2 => (0u32..1000, 0u32..1024).prop_map(|(k, j)| k as f32 + j as f32 / 1024.0),
        1 => wild_finite(),
    ]
    .boxed()
}

fn lfo_op(fs: f32) -> BoxedStrategy<LfoOp> {
    prop_oneof![
        4 => prop_oneof![
            3 => (1u32..=4).prop_map(LfoOp::Tick),
            3 => (1u32..=300).prop_map(LfoOp::Tick),
            1 => (1u32..=20_000).prop_map(LfoOp::Tick),
        ],
        3 => lfo_freq(fs).prop_map(LfoOp::SetFrequency),
        3 => lfo_phase().prop_map(LfoOp::SetPhase),
        1 => (any::<u16>(), any::<u16>(), any::<u16>()).prop_map(|(m, j, k)| LfoOp::NegPhasePair { m, j, k }),
        1 => Just(LfoOp::Reset),
        2 => (0u8..120).prop_map(LfoOp::Read),
        1 => (lfo_freq(fs), lfo_freq(fs), proptest::sample::select(vec![255u16, 256, 257, 512, 20, 3])).prop_map(|(a, b, n)| LfoOp::FreqBurst { a, b, n }),
        1 => (lfo_phase(), lfo_phase(), proptest::sample::select(vec![255u16, 256, 257, 512, 511, 20, 3]), any::<bool>()).prop_map(|(a, b, n, with_reset)| LfoOp::PhaseBurst { a, b, n, with_reset }),
        1 => prop_oneof![6 => (1u32..=64).prop_map(LfoOp::Tick), 1 => Just(LfoOp::Tick(70_000)), 1 => Just(LfoOp::Tick(16_384)), 1 => Just(LfoOp::Tick(1024))],
    ]
    .boxed()
}

pub fn lfo_case() -> BoxedStrategy<LfoCase> {
    sample_rate(192_000.0)
        .prop_flat_map(|fs| (Just(fs), proptest::collection::vec(lfo_op(fs), 1..40)))
        .prop_map(|(fs, ops)| LfoCase { fs, ops })
        .boxed()
}

pub fn replay_history(case: &serde_json::Value, mask: u32) -> Result<(), Failure> {
    let c: LfoCase = serde_json::from_value(case.clone()).map_err(|e| Failure::new("replay_decode", 0, e.to_string()))?;
    let mut st = Stats::default();
    run_case(&c, mask, 5_000_000, &mut st).map(|_| ())
}

pub fn c10(quick: bool, seed: u64) -> Outcome {
    let mut o = Outcome::new(
        "complete generator over phase-counter values (fresh oscillator at fs=131072 placed on the counter value by one tick with f=acc/128, or walked with increment 1) + proptest histories of tick/set_frequency/set_phase/reset incl. bursts of 3..512 frequency changes or phase jumps in a row; at every visited phase all five shapes are read in a generated order, twice, and compared with the exact references (hook gives the true counter). distinct_nontrivial = distinct phases in the last two sine-table cells or within 2 counts of 0, 1/4, 1/2, 3/4 of the cycle, plus distinct histories with a set_phase or >= 2 frequency changes",
    );
    o.assumptions.push("the hook Lfo::verif_phase_bits() returns the oscillator's phase counter (24-bit cycle)".into());
    o.assumptions.push("reference sine/triangle computed in f64 from the counter value".into());
    // --- complete / strided sweep
    let n = TWO24 as u64;
    if quick {
        // stride sweep over the whole cycle, offset chosen by the seed
        let off = (splitmix(seed) % 251) as u32;
        let part = par_chunks("c10_sweep", n, 64, |lo, hi, st| {
            let first = lo + ((251 + off as u64 - lo % 251) % 251);
            sweep_c10(first as u32, hi as u32, 251, st).map(|k| st.count("sweep_evaluations", k)).map_err(|f| (json!({"phase_counter": f.step}), f))
        });
        // interesting phases of the stride sweep are (almost all) revisited by the dense ranges below: do not count them twice
        let mut part = part;
        part.0.counters.remove("phases_interesting");
        o.absorb(part);
        // every phase of the last two cells, the first cell, and +-300 around the quarter points
        let mut ranges: Vec<(u32, u32)> = vec![(0, 16384), (TWO24 - 2 * 16384, TWO24)];
        for q in [TWO24 / 4, TWO24 / 2, 3 * (TWO24 / 4)] {
            ranges.push((q - 300, q + 300));
        }
        let part = par_chunks("c10_sweep", ranges.len() as u64, ranges.len(), |lo, hi, st| {
            for i in lo..hi {
                let (a, b) = ranges[i as usize];
                sweep_c10(a, b, 1, st).map(|k| st.count("sweep_evaluations", k)).map_err(|f| (json!({"phase_counter": f.step}), f))?;
            }
            Ok(())
        });
        o.absorb(part);
    } else {
        let part = par_chunks("c10_sweep", n, 256, |lo, hi, st| {
            sweep_c10(lo as u32, hi as u32, 1, st).map(|k| st.count("sweep_evaluations", k)).map_err(|f| (json!({"phase_counter": f.step}), f))
        });
        o.absorb(part);
        if o.stats.get("phases_checked") == n && o.stats.notes.is_empty() {
            o.exhaustive = true;
            o.exhaustive_note = "all 2^24 phase-counter values x 5 shapes of one oscillator (fs = 131072) enumerated; histories are sampled".into();
        }
    }
    let interesting = o.stats.get("phases_interesting");
    // --- histories
    let cases = if quick { 20_000 } else { 200_000 };
    let part = pt_run("lfo_history", lfo_case, cases, seed, 10, 4000, |c, st| {
        run_case(c, C10, 300_000, st).map(|i| i.nontrivial)
    });
    o.absorb(part);
    o.stats.count("distinct_interesting_phases_in_sweep", interesting);
    o.stats.samples.push(json!({"sweep": "phase_counter 16777215: Sine/Triangle/UpSaw/DownSaw/Square read in permutation 15, twice"}));
    o
}

pub fn c10_nontrivial(o: &Outcome) -> u64 {
    // phases in the sweep are distinct by construction (each counter value visited once per sweep part; the quick
    // tier's stride sweep and dense ranges overlap in at most |ranges|/251 phases, so count the dense ranges only)
    o.stats.get("distinct_interesting_phases_in_sweep") + o.stats.nontrivial.len() as u64
}

pub fn c11(quick: bool, seed: u64) -> Outcome {
    let mut o = Outcome::new(
        "proptest histories (1..40 ops) of tick(n)/set_frequency/set_phase/reset/negative-phase pairs/frequency-change bursts/phase-jump bursts (3..512 calls in a row) at generated sample rates in [100 Hz, 192 kHz]; frequencies from {0, fs, U[0,fs], log-uniform down to fs*2^-26, within 2 ulps of k*fs/2^24, < 4 counts per tick}; phases from {U[0,1), U[0,1000), negative, 1e10/1e30/f32::MAX, subnormal, +-0, k+j/1024}; oracle on the exact counter (hook) after every op and every tick. non-trivial = history containing a frequency whose increment is <= 1 or >= 2^24-1 counts, or a phase argument with |p| >= 1 or p < 0, or >= 10^4 ticks; distinct by hash of the history",
    );
    o.assumptions.push("the hook Lfo::verif_phase_bits() returns the oscillator's phase counter (24-bit cycle)".into());
    o.assumptions.push("frequencies are finite and within [0, fs]; phases are finite (the statement's domain)".into());
    let cases = if quick { 400_000 } else { 2_000_000 };
    let part = pt_run("lfo_history", lfo_case, cases, seed, 11, 4000, |c, st| {
        run_case(c, C11, 400_000, st).map(|i| i.nontrivial)
    });
    o.absorb(part);
    o
}

#[derive(Debug, Clone, serde::Serialize, serde::Deserialize)]
pub struct WalkCase {
    pub start: u32,
    pub inc: u32,
    pub count: u32,
}

fn walk_case() -> BoxedStrategy<WalkCase> {
    let inc = prop_oneof![
        3 => proptest::sample::select(vec![1u32, 2, 3, 7, 16, 100, 4099, 16383, 16384, 16385, 8_388_607, 8_388_608, 8_388_609, 16_777_215, 16_777_214, 16_760_832]),
        3 => (0.0f64..(TWO24F.ln())).prop_map(|x| (x.exp() as u32).max(1).min(TWO24 - 1)),
        1 => 1u32..TWO24,
        // near k * 2^j: where index / fraction bit fields of the counter hand over
        3 => (10u32..24, 1u32..16, prop_oneof![1 => Just(0i64), 3 => -1100i64..1100]).prop_map(|(j, k, d)| (((k as i64) << j) + d).clamp(1, TWO24 as i64 - 1) as u32),
    ];
    (0u32..TWO24, inc, 20u32..600).prop_map(|(start, inc, count)| WalkCase { start, inc, count }).boxed()
}

pub fn c12_walk(w: &WalkCase, st: &mut Stats) -> Result<bool, Failure> {
    let before = st.get("pairs_interesting");
    sweep_c12(w.start, w.inc, w.count as u64, st)?;
    Ok(st.get("pairs_interesting") > before)
}

pub fn c12(quick: bool, seed: u64) -> Outcome {
    let mut o = Outcome::new(
        "complete generator: walk with the smallest increment (1 count per tick) over adjacent phase-counter pairs (quick: the 300000 counts either side of the cycle wrap plus 256 seed-chosen complete table cells; thorough: all 2^24 pairs including the wrap pair) + proptest walks (start, increment, length) with increments from {2,3,7,16,100,...,2^23+-1,2^24-1} and log-uniform + proptest histories (the value before a tick is both re-read and taken as read after the previous tick, so pairs also straddle set_frequency calls); per pair |dSine| <= 2pi*1.002*d + 2ulp and |dTriangle| <= 4d with d the actual circular phase step (hook). non-trivial = pair straddling a table-cell edge, the wrap pair, or inside the last two cells; distinct_nontrivial counts such pairs of the increment-1 walk (distinct by construction) plus distinct generated walks/histories containing one",
    );
    o.assumptions.push("the hook Lfo::verif_phase_bits() returns the oscillator's phase counter (24-bit cycle)".into());
    let n = TWO24 as u64;
    if quick {
        let span = 600_000u64;
        let start = n - 300_000;
        let part = par_chunks("c12_walk", span, 16, |lo, hi, st| {
            let s = ((start + lo) % n) as u32;
            sweep_c12(s, 1, hi - lo, st).map(|k| st.count("sweep_evaluations", k)).map_err(|f| (json!({"start": s, "inc": 1, "count": hi - lo, "at_counter": f.step}), f))
        });
        o.absorb(part);
        // seed-chosen complete cells (each walk covers the cell and the step into the next one)
        let mut mix = Mix(seed ^ 0xC12);
        let cells: Vec<u32> = (0..256).map(|_| 19 + mix.below(1024 - 38) as u32).collect();
        let part = par_chunks("c12_walk", cells.len() as u64, cells.len(), |lo, hi, st| {
            for i in lo..hi {
                let s = cells[i as usize] << 14;
                sweep_c12(s, 1, 16385, st).map(|k| st.count("sweep_evaluations", k)).map_err(|f| (json!({"start": s, "inc": 1, "count": 16385, "at_counter": f.step}), f))?;
            }
            Ok(())
        });
        o.absorb(part);
    } else {
        let part = par_chunks("c12_walk", n, 256, |lo, hi, st| {
            sweep_c12(lo as u32, 1, hi - lo, st).map(|k| st.count("sweep_evaluations", k)).map_err(|f| (json!({"start": lo, "inc": 1, "count": hi - lo, "at_counter": f.step}), f))
        });
        o.absorb(part);
        if o.stats.get("pairs_checked") == n && o.stats.notes.is_empty() {
            o.exhaustive = true;
            o.exhaustive_note = "all 2^24 adjacent pairs at increment 1 (including the wrap pair) of one oscillator (fs = 131072) enumerated; larger increments and histories are sampled".into();
        }
    }
    let walk_pairs = o.stats.get("pairs_interesting");
    o.stats.count("distinct_interesting_pairs_in_unit_walk", walk_pairs);
    let cases = if quick { 60_000 } else { 400_000 };
    let part = pt_run("c12_walk", walk_case, cases, seed, 12, 2000, |w, st| c12_walk(w, st));
    o.absorb(part);
    let cases = if quick { 20_000 } else { 100_000 };
    let part = pt_run("lfo_history", lfo_case, cases, seed, 13, 4000, |c, st| {
        run_case(c, C12, 300_000, st).map(|i| i.nontrivial)
    });
    o.absorb(part);
    o.stats.samples.push(json!({"walk": {"start": 16477216, "inc": 1, "count": 600000}}));
    o
}

pub fn c12_nontrivial(o: &Outcome) -> u64 {
    o.stats.get("distinct_interesting_pairs_in_unit_walk") + o.stats.nontrivial.len() as u64
}
